//! C14 Encoding respects the caller's buffer and the 64 KiB limit.
//! Oracle: reference-encoded length and bytes (`refstun::wire`).

use super::c01::witness;
use super::{decode, decoder, report_panic};
use crate::bridge;
use crate::ctx::{guarded, Ctx};
use crate::gen::{self, GenCfg};
use crate::json::J;
use crate::oracle::compare_decoded;
use crate::refstun::wire::{self, LAttr, LMsg, Zero};
use crate::rng::{fnv64, Rng};
use stun_rs::{MessageEncoderBuilder, StunMessage};

#[derive(Clone, Copy)]
enum Fill {
    Zero,
    Ones,
    Random(u64),
}

fn make_buf(len: usize, fill: Fill) -> Vec<u8> {
    match fill {
        Fill::Zero => vec![0u8; len],
        Fill::Ones => vec![0xFFu8; len],
        Fill::Random(seed) => {
            let mut r = Rng::new(seed);
            r.bytes(len)
        }
    }
}

fn fill_name(f: Fill) -> &'static str {
    match f {
        Fill::Zero => "0x00",
        Fill::Ones => "0xFF",
        Fill::Random(_) => "random",
    }
}

/// One encode into a buffer of `len` bytes; checks every clause of the property that
/// applies.  `reference` = canonical bytes, or None when the message must be rejected
/// (attributes do not fit the 16-bit length field).
fn one_encode(ctx: &mut Ctx, m: &LMsg, lib: &StunMessage, reference: Option<&[u8]>, len: usize, fill: Fill) {
    let before = make_buf(len, fill);
    let mut buf = before.clone();
    let res = guarded(|| {
        let enc = MessageEncoderBuilder::default().build();
        enc.encode(&mut buf, lib).map_err(|e| e.to_string())
    });
    ctx.count("encodes");
    let w = || {
        witness(m, None)
            .set("buffer_len", J::u(len))
            .set("prefill", J::s(fill_name(fill)))
            .set("needed", match reference {
                Some(r) => J::u(r.len()),
                None => J::s("does not fit 16-bit length"),
            })
    };
    let res = match res {
        Err(p) => {
            let sig = format!("encode-panic:{}", crate::ctx::panic_sig(&p));
            ctx.violation(&sig, format!("encode panicked: {} at {}", p.message, p.location), w());
            return;
        }
        Ok(r) => r,
    };
    match (reference, res) {
        (Some(r), Ok(size)) if len >= r.len() => {
            if size != r.len() {
                ctx.violation(
                    "wrong-size",
                    format!("encode returned {} for a message of {} bytes", size, r.len()),
                    w(),
                );
                return;
            }
            if &buf[..size] != r {
                let off = buf[..size].iter().zip(r.iter()).position(|(a, b)| a != b).unwrap_or(0);
                ctx.violation(
                    "bytes-depend-on-buffer",
                    format!(
                        "bytes written differ from the canonical encoding at offset {} (buffer {} bytes, prefill {})",
                        off,
                        len,
                        fill_name(fill)
                    ),
                    w(),
                );
            }
            if buf[size..] != before[size..] {
                let off = size + buf[size..].iter().zip(before[size..].iter()).position(|(a, b)| a != b).unwrap_or(0);
                ctx.violation(
                    "wrote-beyond-size",
                    format!("byte at offset {} beyond the returned size {} was modified", off, size),
                    w(),
                );
            }
            ctx.count("fits.ok");
        }
        (Some(r), Err(e)) if len >= r.len() => {
            let sig = if r.len() - 20 > 65000 { "fitting-message-rejected:near-64k" } else { "fitting-message-rejected" };
            ctx.violation(
                sig,
                format!("buffer of {} bytes is enough for {} bytes but encode failed: {}", len, r.len(), e),
                w(),
            );
        }
        (Some(r), Ok(size)) => {
            ctx.violation(
                "short-buffer-accepted",
                format!("buffer of {} bytes < needed {} but encode returned Ok({})", len, r.len(), size),
                w(),
            );
        }
        (Some(_), Err(_)) => ctx.count("short.err"),
        (None, Ok(size)) => {
            let written_len = u16::from_be_bytes([buf[2], buf[3]]);
            ctx.violation(
                "oversize-accepted",
                format!(
                    "attributes need more than 65535 bytes but encode returned Ok({}) with header length {}",
                    size, written_len
                ),
                w(),
            );
        }
        (None, Err(_)) => ctx.count("oversize.err"),
    }
}

fn lib_msg(ctx: &mut Ctx, m: &LMsg) -> Option<StunMessage> {
    match guarded(|| bridge::to_lib_msg(m)) {
        Ok(Ok(x)) => Some(x),
        Ok(Err(_)) => {
            ctx.count("construct-rejected");
            None
        }
        Err(p) => {
            report_panic(ctx, "construct", &p, witness(m, None));
            None
        }
    }
}

/// message whose attribute bytes total exactly `total` (multiple of 4), assembled from
/// DATA / PADDING / SOFTWARE / MOBILITY-TICKET of varied sizes, optionally with a tail
pub fn assemble(rng: &mut Rng, total: usize, with_tail: bool) -> LMsg {
    let tb: u8 = if with_tail { 1 + rng.below(7) as u8 } else { 0 };
    let tail = gen::tail(tb);
    let tail_bytes: usize = tail
        .iter()
        .map(|a| match a {
            LAttr::MessageIntegrity => 24,
            LAttr::MessageIntegritySha256 => 36,
            _ => 8,
        })
        .sum();
    let mut left = total - tail_bytes;
    let mut attrs = Vec::new();
    while left > 0 {
        // each attribute takes 4 + len + pad; choose a chunk (multiple of 4, >= 4)
        let max_chunk = left.min(65_532);
        let chunk = if left <= 8 || rng.chance(1, 3) {
            max_chunk
        } else {
            let c = 4 + 4 * rng.below((max_chunk / 4) as u64) as usize;
            // never leave a remainder that no attribute can fill
            if left - c < 4 && left != c {
                max_chunk
            } else {
                c
            }
        };
        let room = chunk - 4; // value + padding
        let slack = if room == 0 { 0 } else { rng.below(4.min(room as u64 + 1)) as usize };
        let vlen = room - slack.min(room);
        // vlen + pad(vlen) must equal room
        let vlen = if vlen + wire::pad_len(vlen) == room { vlen } else { room };
        let a = match rng.below(4) {
            0 if vlen <= 509 => LAttr::Software(gen::string_bytes(rng, gen::Alpha::Ascii, vlen)),
            1 if vlen <= 64_000 => LAttr::Padding(gen::string_bytes(rng, gen::Alpha::Ascii, vlen)),
            2 => LAttr::MobilityTicket(rng.bytes(vlen)),
            _ => LAttr::Data(rng.bytes(vlen)),
        };
        attrs.push(a);
        left -= chunk;
    }
    attrs.extend(tail);
    let key = if tb & 3 != 0 { Some(gen::key_spec(rng)) } else { None };
    LMsg { method: gen::method(rng), class: rng.below(4) as u8, txid: gen::txid(rng), attrs, key }
}

pub fn run(ctx: &mut Ctx) {
    ctx.track_every_case = true;
    let cfg = GenCfg { max_blob: 120 };

    // (a) small messages: every buffer length 0..needed+8, three prefills
    let n = ctx.n(1_500, 200_000);
    ctx.cases("every-length", n, |ctx, case, rng| {
        let m = gen::message(rng, 6, &cfg);
        let reference = wire::build(&m, &mut Zero);
        if reference.len() > 300 {
            ctx.count("every-length.skipped-large");
            return;
        }
        let Some(lib) = lib_msg(ctx, &m) else { return };
        for len in 0..=reference.len() + 8 {
            let fill = match (len + case as usize) % 3 {
                0 => Fill::Zero,
                1 => Fill::Ones,
                _ => Fill::Random(rng.next_u64()),
            };
            one_encode(ctx, &m, &lib, Some(&reference), len, fill);
        }
        // all three prefills at the exact size and at +slack: results must be identical
        for fill in [Fill::Zero, Fill::Ones, Fill::Random(rng.next_u64())] {
            one_encode(ctx, &m, &lib, Some(&reference), reference.len(), fill);
            one_encode(ctx, &m, &lib, Some(&reference), reference.len() + 64 + rng.below(200) as usize, fill);
        }
        ctx.count("every-length.messages");
        if ctx.want_sample() && case % 211 == 0 {
            ctx.sample(witness(&m, Some(&reference)).set("buffer_lengths", J::s(format!("0..={}", reference.len() + 8))));
        }
        ctx.eval(if m.attrs.is_empty() { None } else { Some(fnv64(&reference)) });
    });

    // (b) larger messages: 64 sampled lengths
    let big = GenCfg { max_blob: 3000 };
    let n = ctx.n(300, 40_000);
    ctx.cases("sampled-length", n, |ctx, _case, rng| {
        let m = gen::message(rng, 12, &big);
        let reference = wire::build(&m, &mut Zero);
        let Some(lib) = lib_msg(ctx, &m) else { return };
        for _ in 0..64 {
            let len = match rng.below(4) {
                0 => reference.len().saturating_sub(rng.below(12) as usize),
                1 => reference.len() + rng.below(12) as usize,
                _ => rng.below(reference.len() as u64 + 40) as usize,
            };
            let fill = *rng.pick(&[Fill::Zero, Fill::Ones, Fill::Random(len as u64)]);
            one_encode(ctx, &m, &lib, Some(&reference), len, fill);
        }
        ctx.count("sampled-length.messages");
        ctx.eval(if m.attrs.is_empty() { None } else { Some(fnv64(&reference)) });
    });

    // (c) the 16-bit boundary: totals 65,500..=65,532 step 4 must encode (and decode back)
    let totals: Vec<usize> = (65_500..=65_532).step_by(4).collect();
    let reps = ctx.n(4, 200);
    ctx.cases("near-limit", totals.len() as u64 * reps, |ctx, case, rng| {
        let total = totals[(case % totals.len() as u64) as usize];
        let m = assemble(rng, total, case % 2 == 1);
        debug_assert_eq!(wire::encoded_attr_bytes(&m), total);
        let reference = wire::build(&m, &mut Zero);
        let Some(lib) = lib_msg(ctx, &m) else { return };
        ctx.count(&format!("near-limit.total.{}", total));
        one_encode(ctx, &m, &lib, Some(&reference), reference.len() + rng.below(100) as usize, Fill::Ones);
        one_encode(ctx, &m, &lib, Some(&reference), reference.len(), Fill::Zero);
        one_encode(ctx, &m, &lib, Some(&reference), reference.len() - 1 - rng.below(8) as usize, Fill::Zero);
        // the reference bytes decode back to the same message (a fitting message is usable)
        let dec = decoder(None, None);
        match decode(&dec, &reference) {
            Err(p) => report_panic(ctx, "decode", &p, witness(&m, None)),
            Ok(Err(e)) => ctx.violation("near-limit-decode-failed", e, witness(&m, None)),
            Ok(Ok((got, n))) => {
                if n != reference.len() || !compare_decoded(&m, &reference, &got, false).is_empty() {
                    ctx.violation("near-limit-roundtrip-differs", "decoded message differs".into(), witness(&m, None));
                }
            }
        }
        if ctx.want_sample() {
            ctx.sample(J::obj().set("attribute_bytes", J::u(total)).set(
                "attrs",
                J::arr(m.attrs.iter().map(|a| J::s(format!("{}({} value bytes)", a.kind_name(), match a {
                    LAttr::Data(d) | LAttr::MobilityTicket(d) => d.len(),
                    LAttr::Software(s) | LAttr::Padding(s) => s.len(),
                    _ => 0,
                })))),
            ));
        }
        ctx.eval(Some(fnv64(&reference[..64.min(reference.len())]) ^ total as u64));
    });

    // (d) just above and far above the limit: must be rejected, never wrapped
    let over: Vec<usize> = (65_536..=65_560).step_by(4).chain([65_564, 66_000, 70_000, 80_008, 131_072, 131_076, 196_608, 200_000]).collect();
    let reps = ctx.n(6, 120);
    ctx.cases("over-limit", over.len() as u64 * reps, |ctx, case, rng| {
        let total = over[(case % over.len() as u64) as usize];
        let mut m = assemble(rng, total, case % 2 == 1);
        if total == 65_536 && case % 2 == 0 {
            // directed: the LAST attribute's unpadded end is at 65,533..65,535 and only its
            // padding crosses the 16-bit limit
            let slack = 1 + (case / 2 % 3) as usize;
            let head = 4 * rng.below(16_000) as usize;
            let mut attrs = Vec::new();
            if head > 0 {
                attrs.push(LAttr::Data(rng.bytes(head - 4)));
            }
            let room = 65_536 - head - 4;
            attrs.push(if rng.bool() { LAttr::Data(rng.bytes(room - slack)) } else { LAttr::MobilityTicket(rng.bytes(room - slack)) });
            m.attrs = attrs;
            m.key = None;
            ctx.count("over-limit.padding-crosses-limit");
        }
        let Some(lib) = lib_msg(ctx, &m) else { return };
        ctx.count(&format!("over-limit.total.{}", total));
        let buf_len = total + 20 + rng.below(5000) as usize;
        one_encode(ctx, &m, &lib, None, buf_len, *rng.pick(&[Fill::Zero, Fill::Ones]));
        one_encode(ctx, &m, &lib, None, 300_000, Fill::Zero);
        ctx.eval(Some(fnv64(&(total as u64 ^ case << 20).to_le_bytes())));
    });

    // (e) a single attribute whose value alone exceeds 65535 bytes
    ctx.cases("oversize-attribute", ctx.n(8, 64), |ctx, _case, rng| {
        let n = 65_536 + rng.below(40_000) as usize;
        let a = if rng.bool() { LAttr::Data(rng.bytes(n)) } else { LAttr::MobilityTicket(rng.bytes(n)) };
        let m = LMsg { method: 1, class: 0, txid: gen::txid(rng), attrs: vec![a], key: None };
        let Some(lib) = lib_msg(ctx, &m) else { return };
        one_encode(ctx, &m, &lib, None, n + 1000, Fill::Zero);
        ctx.count("oversize-attribute.cases");
        ctx.eval(Some(n as u64));
    });
}
