//! Exhaustive small-scope exploration of the real client: EVERY sequence of actions up to
//! a depth over a small alphabet, for a few fixed configurations, executed against the real
//! code with all monitors of the calling property on.  (Not a model: each sequence is an
//! execution; the bound is stated in the evidence.)

use crate::ctx::Ctx;
use crate::json::J;
use crate::rng::Rng;
use crate::server::{Fp, Integ, Reply};
use crate::sim::{Ev, Id, Mech, OpResult, SimCfg, TxState};
use crate::walk::{Packet, Profile, Walk};
use stun_agent::StunAttributes;

fn digits(mut n: u64, base: u64, len: usize) -> Vec<u8> {
    let mut v = Vec::with_capacity(len);
    for _ in 0..len {
        v.push((n % base) as u8);
        n /= base;
    }
    v
}

fn cfg(reliable: Option<u64>, rto_ms: u64, rm: u32, rc: u32, mech: Mech, fingerprint: bool, limit: usize) -> SimCfg {
    SimCfg {
        reliable,
        rto_ns: rto_ms * 1_000_000,
        granularity_ns: 1_000_000,
        rm,
        rc,
        mech,
        user: "enum-user".into(),
        password: "enum-password-0123456789".into(),
        password_raw: "enum-password-0123456789".into(),
        fingerprint,
        max_transactions: limit,
    }
}

const T_ACTIONS: u64 = 10;
const T_NAMES: [&str; 10] = [
    "send",
    "good-response-oldest",
    "good-response-newest",
    "bad-response-oldest",
    "timer-exact",
    "timer-late",
    "timer-beyond-deadline",
    "timer-early",
    "duplicate-last-packet",
    "late-response-for-finished",
];

fn transport_action(w: &mut Walk, ctx: &mut Ctx, rng: &mut Rng, a: u8, last: &mut Option<Vec<u8>>) {
    let aw: Vec<(Id, u16)> = w.sim.txs.iter().filter(|t| t.state == TxState::Awaiting).map(|t| (t.id, t.method)).collect();
    match a {
        0 => {
            let r = w.sim.send_request(ctx, 1, StunAttributes::default(), "", 512);
            if let OpResult::Sent(id) = r {
                let bytes = w.sim.txs[w.sim.index[&id]].first_bytes.clone();
                w.cred.on_output(ctx, &w.sim, &id, &bytes, 1, false, Some(&[]), None);
                w.resp.observe_request(&bytes);
            }
        }
        1 | 2 | 3 => {
            let target = if a == 2 { aw.last() } else { aw.first() };
            let (id, m) = target.copied().unwrap_or(([0x42; 12], 1));
            let bytes = if a == 3 {
                match w.sim.cfg.mech {
                    Mech::None => {
                        if w.sim.cfg.fingerprint {
                            crate::server::craft(&Reply { class: 2, method: m, txid: id, error_code: None, extra: vec![], integ: Integ::None, key: vec![], fp: Fp::Bad })
                        } else {
                            // a request-class message carrying the id
                            crate::mutate::readdress_and_resign(&w.resp.good(&id, m, None, false), &id, None, false, Some(0))
                        }
                    }
                    _ => w.resp.bad_auth(&id, m, Integ::MiBad, None),
                }
            } else {
                w.resp.good(&id, m, None, w.st_prefer_sha)
            };
            w.sim.now += 1_000_000;
            *last = Some(bytes.clone());
            let (_, evs) = w.recv(ctx, T_NAMES[a as usize], &bytes, None);
            learn(w, &evs);
        }
        4 => {
            if let Some((_, at)) = w.sim.armed {
                w.sim.now = w.sim.now.max(at);
            }
            w.timeout(ctx, "exact");
        }
        5 => {
            if let Some((_, at)) = w.sim.armed {
                w.sim.now = w.sim.now.max(at) + w.sim.cfg.rto_ns / 2 + 1;
            }
            w.timeout(ctx, "late");
        }
        6 => {
            let far = w.sim.txs.iter().filter(|t| t.state == TxState::Awaiting).map(|t| t.deadline).max().unwrap_or(w.sim.now);
            w.sim.now = w.sim.now.max(far) + 1 + rng.below(1000);
            w.timeout(ctx, "beyond-deadline");
        }
        7 => {
            if let Some((_, at)) = w.sim.armed {
                if at > w.sim.now + 2 {
                    w.sim.now += (at - w.sim.now) / 2;
                }
            }
            w.timeout(ctx, "early");
        }
        8 => {
            if let Some(b) = last.clone() {
                w.sim.now += 1_000;
                let (_, evs) = w.recv(ctx, "duplicate", &b, None);
                learn(w, &evs);
            }
        }
        _ => {
            let fin = w.sim.txs.iter().rev().find(|t| matches!(t.state, TxState::Final(_))).map(|t| (t.id, t.method));
            if let Some((id, m)) = fin {
                let b = w.resp.good(&id, m, None, w.st_prefer_sha);
                w.sim.now += 1_000_000;
                let (_, evs) = w.recv(ctx, "late-response-for-finished", &b, None);
                learn(w, &evs);
            }
        }
    }
}

fn learn(w: &mut Walk, _evs: &[Ev]) {
    if let Some(a) = w.cred.agreed {
        w.st_prefer_sha = a;
    }
}

/// Every action sequence of length `depth` over the 10 transport-level actions, for each of
/// four fixed client configurations.
pub fn transport(ctx: &mut Ctx, monitors: u32) {
    let depth: usize = if ctx.quick() { 4 } else { 6 };
    let cfgs = [
        cfg(None, 100, 2, 3, Mech::None, false, 2),
        cfg(Some(1_000_000_000), 500, 16, 7, Mech::ShortTerm(None), false, 2),
        cfg(None, 50, 3, 2, Mech::ShortTerm(Some(false)), true, 10),
        cfg(None, 500, 16, 7, Mech::None, true, 1),
    ];
    let per = T_ACTIONS.pow(depth as u32);
    let p = Profile::base(monitors);
    ctx.cases("enumerated-schedules", per * cfgs.len() as u64, |ctx, case, rng| {
        let c = &cfgs[(case / per) as usize];
        let seq = digits(case % per, T_ACTIONS, depth);
        let Ok(mut w) = Walk::new(c.clone(), &p, rng) else { return };
        let mut last = None;
        for a in &seq {
            if w.sim.dead {
                break;
            }
            transport_action(&mut w, ctx, rng, *a, &mut last);
        }
        if !w.sim.dead {
            w.drain(ctx, rng);
        }
        ctx.count("enumerated.schedules");
        ctx.state(w.sim.abstract_state());
        if ctx.want_sample() && case % 7919 == 13 {
            ctx.sample(J::obj().set("enumerated_schedule", J::arr(seq.iter().map(|a| J::s(T_NAMES[*a as usize])))).set("config", J::s(c.describe())));
        }
        ctx.eval(Some(case ^ 0xE11E));
    });
    ctx.exhaustive.insert(format!("every schedule of {} actions over {} action kinds x {} client configurations", depth, T_ACTIONS, cfgs.len()), ctx.only.is_none());
}

// ---------------------------------------------------------------------------------------
// long-term conversations: every sequence of server behaviours

const LT_MENU: u64 = 14;
const LT_NAMES: [&str; 14] = [
    "401-plain",
    "401-cookie-anonymity",
    "401-md5",
    "401-sha256",
    "401-md5+sha256-anonymity",
    "401-unsupported-algorithms",
    "401-missing-nonce",
    "438-without-integrity",
    "438-with-integrity",
    "success-authenticated",
    "success-without-integrity",
    "success-wrong-key",
    "error-400-authenticated",
    "error-400-without-integrity",
];

fn lt_exchange(w: &mut Walk, ctx: &mut Ctx, rng: &mut Rng, k: u8, rich: bool) {
    let method = 1u16;
    let (attrs, list, desc) = crate::walk::app_attrs(rng, if rich { 3 } else { 0 }, rich);
    let r = w.sim.send_request(ctx, method, attrs, &desc, 4096);
    let OpResult::Sent(id) = r else { return };
    let bytes = w.sim.txs[w.sim.index[&id]].first_bytes.clone();
    w.cred.on_output(ctx, &w.sim, &id, &bytes, method, false, Some(&list), Some(crate::walk::APP_KEY.as_bytes()));
    w.resp.observe_request(&bytes);
    let mut pkt = Packet { at: w.sim.now, bytes: vec![], label: LT_NAMES[k as usize].to_string(), lt_on_retry: None, nonce_on_retry: None };
    match k {
        0..=6 => {
            let (algs, anon, cookie, variant) = match k {
                0 => (0, false, false, 0),
                1 => (0, true, true, 0),
                2 => (1, false, true, 0),
                3 => (2, false, true, 0),
                4 => (3, true, true, 0),
                5 => (5, false, true, 0),
                _ => (0, false, false, 2),
            };
            let (b, st) = w.resp.challenge_variant(rng, &id, method, algs, anon, cookie, false, variant);
            pkt.bytes = b;
            pkt.lt_on_retry = Some(st);
        }
        7 | 8 => match w.resp.stale(&id, method, k == 8) {
            Some((b, n)) => {
                pkt.bytes = b;
                pkt.nonce_on_retry = Some(n);
            }
            None => {
                // no conversation yet: a 438 out of the blue
                pkt.bytes = crate::server::craft(&Reply {
                    class: 3,
                    method,
                    txid: id,
                    error_code: Some((438, "Stale Nonce".into())),
                    extra: vec![(crate::refstun::wire::T_NONCE, b"early-nonce".to_vec())],
                    integ: Integ::None,
                    key: vec![],
                    fp: w.resp.fp(),
                });
            }
        },
        9 => pkt.bytes = w.resp.good(&id, method, None, false),
        10 => pkt.bytes = w.resp.bad_auth(&id, method, Integ::None, None),
        11 => {
            let integ = if w.resp.lt.as_ref().map(|l| l.algs.is_some()).unwrap_or(false) { Integ::ShaWrongKey } else { Integ::MiWrongKey };
            pkt.bytes = w.resp.bad_auth(&id, method, integ, None);
        }
        12 => pkt.bytes = w.resp.good(&id, method, Some(400), false),
        _ => pkt.bytes = w.resp.bad_auth(&id, method, Integ::None, Some(400)),
    }
    w.sim.now += 1_000_000 + rng.below(1_000_000);
    let (_, evs) = w.recv(ctx, &pkt.label.clone(), &pkt.bytes.clone(), Some(&pkt));
    for e in &evs {
        if let Ev::Retry { .. } = e {
            if let Some(st) = &pkt.lt_on_retry {
                w.resp.lt = Some(st.clone());
            }
            if let (Some(n), Some(lt)) = (&pkt.nonce_on_retry, w.resp.lt.as_mut()) {
                lt.nonce = n.clone();
            }
        }
    }
}

/// Every sequence of `depth` server behaviours out of 14, on both transports.
pub fn long_term(ctx: &mut Ctx, monitors: u32) {
    let depth: usize = if ctx.quick() { 3 } else { 5 };
    let per = LT_MENU.pow(depth as u32);
    let p = Profile { rich_app: true, ..Profile::base(monitors) };
    ctx.cases("enumerated-server-behaviours", per * 2, |ctx, case, rng| {
        let reliable = case / per == 1;
        let c = cfg(if reliable { Some(5_000_000_000) } else { None }, 500, 16, 7, Mech::LongTerm, case % 3 == 0, 10);
        let seq = digits(case % per, LT_MENU, depth);
        let Ok(mut w) = Walk::new(c, &p, rng) else { return };
        for k in &seq {
            if w.sim.dead {
                break;
            }
            lt_exchange(&mut w, ctx, rng, *k, case % 2 == 0);
        }
        // one more request to observe the form after the last reply
        if !w.sim.dead {
            lt_exchange(&mut w, ctx, rng, 10, false);
            w.drain(ctx, rng);
        }
        ctx.count("enumerated.conversations");
        ctx.state(w.sim.abstract_state());
        if ctx.want_sample() && case % 997 == 21 {
            ctx.sample(J::obj().set("enumerated_server_behaviours", J::arr(seq.iter().map(|a| J::s(LT_NAMES[*a as usize])))).set("transport", J::s(if reliable { "reliable" } else { "unreliable" })));
        }
        ctx.eval(Some(case ^ 0xC08));
    });
    ctx.exhaustive.insert(format!("every sequence of {} server behaviours out of {} x 2 transports", depth, LT_MENU), ctx.only.is_none());
}

// ---------------------------------------------------------------------------------------
// short-term conversations: every sequence of replies

const ST_MENU: u64 = 13;
const ST_NAMES: [&str; 13] = [
    "success-valid-MI",
    "success-valid-SHA256",
    "success-both",
    "success-none",
    "success-MI-corrupted",
    "success-SHA256-other-password",
    "error-valid-MI",
    "error-valid-SHA256",
    "indication-valid-MI",
    "indication-valid-SHA256",
    "indication-both",
    "indication-none",
    "run-timers-to-final-outcome",
];

fn st_action(w: &mut Walk, ctx: &mut Ctx, rng: &mut Rng, k: u8) {
    // make sure a request is outstanding for the response kinds
    let need_tx = k < 8 || k == 12;
    if need_tx && w.sim.awaiting_count() == 0 {
        let r = w.sim.send_request(ctx, 1, StunAttributes::default(), "", 1024);
        if let OpResult::Sent(id) = r {
            let bytes = w.sim.txs[w.sim.index[&id]].first_bytes.clone();
            w.cred.on_output(ctx, &w.sim, &id, &bytes, 1, false, Some(&[]), None);
        }
    }
    let target = w.sim.txs.iter().find(|t| t.state == TxState::Awaiting).map(|t| (t.id, t.method));
    let key = w.sim.cfg.password.as_bytes().to_vec();
    let fp = w.resp.fp();
    let mk = |class: u8, id: Id, m: u16, integ: Integ, err: Option<u16>| {
        crate::server::craft(&Reply {
            class,
            method: m,
            txid: id,
            error_code: err.map(|c| (c, "e".to_string())),
            extra: if class == 1 { vec![(crate::refstun::wire::T_SOFTWARE, b"i".to_vec())] } else { vec![] },
            integ,
            key: key.clone(),
            fp,
        })
    };
    if k == 12 {
        // follow the timer until the outstanding request reaches its final outcome
        let mut n = 0;
        while w.sim.armed.is_some() && w.sim.awaiting_count() > 0 && n < 40 && !w.sim.dead {
            n += 1;
            let (_, at) = w.sim.armed.unwrap();
            w.sim.now = w.sim.now.max(at);
            w.timeout(ctx, "enum");
        }
        return;
    }
    let (id, m) = target.unwrap_or(([7; 12], 1));
    let mut iid = [0u8; 12];
    rng.fill(&mut iid);
    let bytes = match k {
        0 => mk(2, id, m, Integ::Mi, None),
        1 => mk(2, id, m, Integ::Sha, None),
        2 => mk(2, id, m, Integ::Both, None),
        3 => mk(2, id, m, Integ::None, None),
        4 => mk(2, id, m, Integ::MiBad, None),
        5 => mk(2, id, m, Integ::ShaWrongKey, None),
        6 => mk(3, id, m, Integ::Mi, Some(400)),
        7 => mk(3, id, m, Integ::Sha, Some(420)),
        8 => mk(1, iid, 7, Integ::Mi, None),
        9 => mk(1, iid, 7, Integ::Sha, None),
        10 => mk(1, iid, 7, Integ::Both, None),
        _ => mk(1, iid, 7, Integ::None, None),
    };
    w.sim.now += 1_000_000;
    let (_, _evs) = w.recv(ctx, ST_NAMES[k as usize], &bytes, None);
}

/// Every sequence of `depth` replies out of 13, for 6 client configurations.
pub fn short_term(ctx: &mut Ctx, monitors: u32) {
    let depth: usize = if ctx.quick() { 3 } else { 5 };
    let per = ST_MENU.pow(depth as u32);
    let cfgs = [
        cfg(None, 100, 2, 3, Mech::ShortTerm(None), false, 10),
        cfg(None, 100, 2, 3, Mech::ShortTerm(Some(false)), true, 10),
        cfg(None, 100, 2, 3, Mech::ShortTerm(Some(true)), false, 10),
        cfg(Some(1_000_000_000), 500, 16, 7, Mech::ShortTerm(None), true, 10),
        cfg(Some(1_000_000_000), 500, 16, 7, Mech::ShortTerm(Some(false)), false, 10),
        cfg(Some(1_000_000_000), 500, 16, 7, Mech::ShortTerm(Some(true)), false, 10),
    ];
    let p = Profile::base(monitors);
    ctx.cases("enumerated-reply-sequences", per * cfgs.len() as u64, |ctx, case, rng| {
        let c = &cfgs[(case / per) as usize];
        let seq = digits(case % per, ST_MENU, depth);
        let Ok(mut w) = Walk::new(c.clone(), &p, rng) else { return };
        for k in &seq {
            if w.sim.dead {
                break;
            }
            st_action(&mut w, ctx, rng, *k);
        }
        if !w.sim.dead {
            // a final request shows which integrity attributes the client now sends
            st_action(&mut w, ctx, rng, 12);
            let r = w.sim.send_request(ctx, 1, StunAttributes::default(), "", 1024);
            if let OpResult::Sent(id) = r {
                let bytes = w.sim.txs[w.sim.index[&id]].first_bytes.clone();
                w.cred.on_output(ctx, &w.sim, &id, &bytes, 1, false, Some(&[]), None);
            }
            w.drain(ctx, rng);
        }
        ctx.count("enumerated.reply-sequences");
        ctx.state(w.sim.abstract_state());
        if ctx.want_sample() && case % 499 == 17 {
            ctx.sample(J::obj().set("enumerated_replies", J::arr(seq.iter().map(|a| J::s(ST_NAMES[*a as usize])))).set("config", J::s(c.describe())));
        }
        ctx.eval(Some(case ^ 0xC07));
    });
    ctx.exhaustive.insert(format!("every sequence of {} replies out of {} x {} short-term client configurations", depth, ST_MENU, cfgs.len()), ctx.only.is_none());
}
