//! C02 Wire bytes follow the RFC layouts.  Oracle: the independent reference codec
//! (`refstun::wire`), forward (library bytes == reference bytes) and backward (reference
//! bytes with noise in every ignorable position decode to the same logical message).

use super::c01::witness;
use super::{decode, decoder, encode, report_panic};
use crate::bridge;
use crate::ctx::{guarded, Ctx};
use crate::gen::{self, GenCfg};
use crate::json::{hex_trunc, J};
use crate::oracle::compare_decoded;
use crate::refstun::wire::{self, Const, KeySpec, LAttr, LMsg, Noise, RngNoise, Zero};
use crate::rng::{fnv64, Rng};

/// kind of the attribute that contains byte offset `off` of the reference encoding
fn kind_at(m: &LMsg, reference: &[u8], off: usize) -> String {
    if off < 20 {
        return "header".into();
    }
    if let Ok(raw) = wire::parse(reference) {
        for (i, a) in raw.attrs.iter().enumerate() {
            if off >= a.offset && off < a.end {
                return m.attrs.get(i).map(|x| x.kind_name().to_string()).unwrap_or_else(|| "?".into());
            }
        }
    }
    "?".into()
}

/// Forward direction: the library's canonical bytes must equal the reference's.
pub fn forward(ctx: &mut Ctx, m: &LMsg) -> Option<Vec<u8>> {
    let reference = wire::build(m, &mut Zero);
    let lib_msg = match guarded(|| bridge::to_lib_msg(m)) {
        Ok(Ok(x)) => x,
        Ok(Err(_)) => {
            ctx.count("forward.construct-rejected");
            return None;
        }
        Err(p) => {
            report_panic(ctx, "construct", &p, witness(m, None));
            return None;
        }
    };
    match encode(&lib_msg, reference.len() + 16, 0xA5) {
        Err(p) => {
            report_panic(ctx, "encode", &p, witness(m, None));
            None
        }
        Ok(Err(e)) => {
            ctx.violation("encode-failed", format!("encode failed: {}", e), witness(m, None));
            None
        }
        Ok(Ok((buf, size))) => {
            let got = &buf[..size.min(buf.len())];
            if got != reference.as_slice() {
                let off = got
                    .iter()
                    .zip(reference.iter())
                    .position(|(a, b)| a != b)
                    .unwrap_or(got.len().min(reference.len()));
                let kind = kind_at(m, &reference, off);
                ctx.violation(
                    &format!("bytes-differ:{}", kind),
                    format!(
                        "library bytes differ from the reference at offset {} (lib {} bytes, reference {} bytes)",
                        off,
                        got.len(),
                        reference.len()
                    ),
                    witness(m, Some(got)).set("reference", J::s(hex_trunc(&reference, 400))),
                );
            }
            ctx.count("forward.compared");
            Some(reference)
        }
    }
}

/// Backward direction: reference bytes with `noise` in ignorable positions decode to `m`.
pub fn backward(ctx: &mut Ctx, m: &LMsg, noise: &mut dyn Noise, label: &str) {
    // the reference only emits wire values that are valid per the RFC grammar; a value an
    // attribute object holds but that is not valid quoted-string content is C01's business
    for a in &m.attrs {
        if let LAttr::Realm { text, .. } | LAttr::Nonce { text, .. } = a {
            if !wire::valid_quoted_content(text) {
                ctx.count("backward.skipped-invalid-quoted-content");
                return;
            }
        }
    }
    let bytes = wire::build(m, noise);
    let key = m.key.as_ref().and_then(|k| bridge::lib_key(k).ok());
    // with a key: also validate, the MAC/CRC were computed by the reference over the noisy bytes
    let opts = if key.is_some() { Some(1u8 | 2) } else { Some(2u8) };
    let dec = decoder(opts, key.as_ref());
    match decode(&dec, &bytes) {
        Err(p) => report_panic(ctx, "decode", &p, witness(m, Some(&bytes))),
        Ok(Err(e)) => {
            let sig = format!("reference-bytes-rejected:{}:{}", label, super::c01::decode_error_kind(m, &e));
            ctx.violation(&sig, format!("library rejects reference bytes ({}): {}", label, e), witness(m, Some(&bytes)));
        }
        Ok(Ok((got, consumed))) => {
            if consumed != bytes.len() {
                ctx.violation(
                    "consumed-mismatch",
                    format!("consumed {} of {}", consumed, bytes.len()),
                    witness(m, Some(&bytes)),
                );
            }
            let diffs = compare_decoded(m, &bytes, &got, false);
            if !diffs.is_empty() {
                let kind = diffs
                    .iter()
                    .find_map(|d| {
                        d.strip_prefix("attr[").and_then(|r| {
                            r.find(']').and_then(|e| r[..e].parse::<usize>().ok()).and_then(|i| m.attrs.get(i))
                        })
                    })
                    .map(|a| a.kind_name())
                    .unwrap_or("header");
                ctx.violation(
                    &format!("decoded-differs:{}:{}", label, kind),
                    diffs.join("; "),
                    witness(m, Some(&bytes)),
                );
            }
            ctx.count(&format!("backward.{}", label));
            reencode(ctx, m, &got, label);
        }
    }
}

/// A decoded message is a message: re-encoding its (ordinary) attributes must give the
/// canonical bytes again - reserved bits and padding that were noisy on the wire must come
/// out zeroed, i.e. nothing ignorable may survive inside a decoded value.
fn reencode(ctx: &mut Ctx, m: &LMsg, got: &stun_rs::StunMessage, label: &str) {
    let ordinary: Vec<LAttr> = m.attrs.iter().filter(|a| !a.is_tail() && !matches!(a, LAttr::Unknown { .. })).cloned().collect();
    if ordinary.is_empty() || ordinary.len() != m.attrs.iter().filter(|a| !a.is_tail()).count() {
        return;
    }
    let canon = wire::build(&LMsg { attrs: ordinary.clone(), key: None, ..m.clone() }, &mut Zero);
    let mut b = stun_rs::StunMessageBuilder::new(got.method(), got.class()).with_transaction_id(*got.transaction_id());
    let mut n = 0;
    for a in got.attributes() {
        if a.is_message_integrity() || a.is_message_integrity_sha256() || a.is_fingerprint() || a.is_unknown() {
            continue;
        }
        b = b.with_attribute(a.clone());
        n += 1;
    }
    if n != ordinary.len() {
        return;
    }
    let msg = b.build();
    match encode(&msg, canon.len() + 8, 0x5A) {
        Err(p) => report_panic(ctx, "re-encode", &p, witness(m, None)),
        Ok(Err(e)) => ctx.violation("reencode-failed", format!("re-encoding a decoded message failed: {}", e), witness(m, None)),
        Ok(Ok((buf, size))) => {
            let out = &buf[..size.min(buf.len())];
            if out != canon.as_slice() {
                let off = out.iter().zip(canon.iter()).position(|(a, b)| a != b).unwrap_or(out.len().min(canon.len()));
                let kind = kind_at(&LMsg { attrs: ordinary, key: None, ..m.clone() }, &canon, off);
                ctx.violation(
                    &format!("reencoded-bytes-not-canonical:{}:{}", label, kind),
                    format!("a message decoded from bytes with noise in ignorable positions re-encodes to non-canonical bytes (first difference at offset {})", off),
                    witness(m, Some(out)).set("canonical", J::s(hex_trunc(&canon, 300))),
                );
            }
            ctx.count("reencode.compared");
        }
    }
}

fn rfc5769(ctx: &mut Ctx) {
    // Logical content of the vectors, written from the RFC text.
    let st = KeySpec::ShortTerm { password: "VOkJxbRl1RmTxUk/WvJxBt".into() };
    let txid1 = [0xb7, 0xe7, 0xa7, 0x01, 0xbc, 0x34, 0xd6, 0x86, 0xfa, 0x87, 0xdf, 0xae];
    let txid2 = [0x78, 0xad, 0x34, 0x33, 0xc6, 0xad, 0x72, 0xc0, 0x29, 0xda, 0x41, 0x2e];
    let user = "\u{30DE}\u{30C8}\u{30EA}\u{30C3}\u{30AF}\u{30B9}".to_string();
    let v6: std::net::Ipv6Addr = "2001:db8:1234:5678:11:2233:4455:6677".parse().unwrap();
    let cases: Vec<(&str, &[u8], LMsg, u8)> = vec![
        (
            "2.1 sample request",
            &stun_vectors::SAMPLE_REQUEST,
            LMsg {
                method: 1,
                class: 0,
                txid: txid1,
                attrs: vec![
                    LAttr::Software("STUN test client".into()),
                    LAttr::Priority(0x6e0001ff),
                    LAttr::IceControlled(0x932ff9b151263b36),
                    LAttr::UserName("evtj:h6vY".into()),
                    LAttr::MessageIntegrity,
                    LAttr::Fingerprint,
                ],
                key: Some(st.clone()),
            },
            0x20,
        ),
        (
            "2.2 sample IPv4 response",
            &stun_vectors::SAMPLE_IPV4_RESPONSE,
            LMsg {
                method: 1,
                class: 2,
                txid: txid1,
                attrs: vec![
                    LAttr::Software("test vector".into()),
                    LAttr::XorMappedAddress(wire::v4(192, 0, 2, 1, 32853)),
                    LAttr::MessageIntegrity,
                    LAttr::Fingerprint,
                ],
                key: Some(st.clone()),
            },
            0x20,
        ),
        (
            "2.3 sample IPv6 response",
            &stun_vectors::SAMPLE_IPV6_RESPONSE,
            LMsg {
                method: 1,
                class: 2,
                txid: txid1,
                attrs: vec![
                    LAttr::Software("test vector".into()),
                    LAttr::XorMappedAddress(std::net::SocketAddr::new(std::net::IpAddr::V6(v6), 32853)),
                    LAttr::MessageIntegrity,
                    LAttr::Fingerprint,
                ],
                key: Some(st),
            },
            0x20,
        ),
        (
            "2.4 long-term request",
            &stun_vectors::SAMPLE_REQUEST_LONG_TERM_AUTH,
            LMsg {
                method: 1,
                class: 0,
                txid: txid2,
                attrs: vec![
                    LAttr::UserName(user.clone()),
                    LAttr::nonce("f//499k954d6OL34oL9FSTvy64sA"),
                    LAttr::realm("example.org"),
                    LAttr::MessageIntegrity,
                ],
                key: Some(KeySpec::LongTerm {
                    user: user.clone(),
                    realm: "example.org".into(),
                    password: "TheMatrIX".into(),
                    alg: 1,
                }),
            },
            0x00,
        ),
        (
            "RFC 8489 B.1 long-term SHA256 + USERHASH",
            &stun_vectors::SAMPLE_REQUEST_LONG_TERM_AUTH_SHA256,
            LMsg {
                method: 1,
                class: 0,
                txid: txid2,
                attrs: vec![
                    LAttr::UserHash { user: user.clone(), realm: "example.org".into() },
                    LAttr::nonce("obMatJos2AAACf//499k954d6OL34oL9FSTvy64sA"),
                    LAttr::realm("example.org"),
                    LAttr::MessageIntegritySha256,
                ],
                key: Some(KeySpec::LongTerm { user, realm: "example.org".into(), password: "TheMatrIX".into(), alg: 1 }),
            },
            0x00,
        ),
    ];
    for (name, vector, m, pad) in cases {
        // 1. the reference reproduces the published bytes (validates the reference itself)
        let mine = wire::build(&m, &mut wire::PadOnly(pad));
        if mine.as_slice() != vector {
            // reference wrong or vector copy wrong: not a statement about the library
            ctx.note(&format!("reference does not reproduce vector `{}` (skipped)", name));
            ctx.count("vectors.reference-mismatch");
            continue;
        }
        ctx.count("vectors.reference-reproduces");
        // 2. the library decodes the published bytes (non-zero padding) to the RFC's content
        let key = m.key.as_ref().and_then(|k| bridge::lib_key(k).ok());
        let dec = decoder(Some(3), key.as_ref());
        match decode(&dec, vector) {
            Err(p) => report_panic(ctx, "decode", &p, witness(&m, Some(vector))),
            Ok(Err(e)) => ctx.violation(
                "vector-rejected",
                format!("RFC vector `{}` rejected: {}", name, e),
                witness(&m, Some(vector)),
            ),
            Ok(Ok((got, _))) => {
                let diffs = compare_decoded(&m, vector, &got, false);
                if !diffs.is_empty() {
                    ctx.violation("vector-decoded-differs", diffs.join("; "), witness(&m, Some(vector)));
                }
            }
        }
        // 3. canonical forward comparison for the same logical message
        let b = forward(ctx, &m);
        ctx.eval(b.map(|b| fnv64(&b)));
        ctx.sample(J::obj().set("rfc_vector", J::s(name)).set("bytes", J::s(hex_trunc(vector, 64))));
    }
}

pub fn run(ctx: &mut Ctx) {
    let cfg = GenCfg::default();

    // RFC 5769 / RFC 8489 B.1 vectors as fixed seeds (shard 0 only)
    ctx.cases("vectors", 1, |ctx, _c, _r| rfc5769(ctx));

    // all 16384 (method, class) pairs, both directions
    ctx.cases("types", 16384, |ctx, case, rng| {
        let method = (case / 4) as u16;
        let class = (case % 4) as u8;
        let attrs = if case % 2 == 0 { vec![] } else { vec![gen::attr_of_kind(rng, (case % 35) as usize, &GenCfg { max_blob: 24 })] };
        let m = LMsg { method, class, txid: gen::txid(rng), attrs, key: None };
        let b = forward(ctx, &m);
        backward(ctx, &m, &mut RngNoise(rng), "noise");
        ctx.count("types.pairs");
        ctx.eval(b.filter(|_| case % 2 == 1).map(|b| fnv64(&b)));
    });
    ctx.exhaustive.insert("all 16384 (method,class) pairs, both directions".into(), ctx.only.is_none());

    // all 65536 inputs of MessageType::from(u16)
    ctx.cases("u16-types", 65536, |ctx, case, _rng| {
        let v = case as u16;
        match guarded(|| {
            let t = stun_rs::MessageType::from(v);
            (t.method().as_u16(), bridge::class_num(t.class()), t.as_u16())
        }) {
            Err(p) => report_panic(ctx, "MessageType::from", &p, J::obj().set("value", J::i(v))),
            Ok((m, c, back)) => {
                let (rm, rc) = wire::split_msg_type(v);
                if (m, c) != (rm, rc) || back != (v & 0x3FFF) || wire::msg_type(rm, rc) != (v & 0x3FFF) {
                    ctx.violation(
                        "message-type-conversion",
                        format!("MessageType::from({:#06x}) -> method {:#x} class {} as_u16 {:#06x}; reference method {:#x} class {}", v, m, c, back, rm, rc),
                        J::obj().set("value", J::i(v)),
                    );
                }
            }
        }
        ctx.count("u16.values");
        ctx.eval(None);
    });
    ctx.exhaustive.insert("all 65536 MessageType::from(u16) inputs".into(), ctx.only.is_none());

    // all 400 error codes, ERROR-CODE and ADDRESS-ERROR-CODE, both directions
    ctx.cases("error-codes", 800, |ctx, case, rng| {
        let code = 300 + (case % 400) as u16;
        let a = pick_reason(rng);
        let n = gen::size_class(rng, 60);
        let reason = gen::string_bytes(rng, a, n);
        let attr = if case < 400 {
            LAttr::ErrorCode { code, reason }
        } else {
            LAttr::AddressErrorCode { family: 1 + (case % 2) as u8, code, reason }
        };
        let m = LMsg { method: 1, class: 3, txid: gen::txid(rng), attrs: vec![attr], key: None };
        let b = forward(ctx, &m);
        backward(ctx, &m, &mut RngNoise(rng), "noise");
        backward(ctx, &m, &mut Const(0xFF), "all-ones");
        ctx.count("error-codes.values");
        ctx.eval(b.map(|b| fnv64(&b)));
    });
    ctx.exhaustive.insert("all 400 error codes x {ERROR-CODE, ADDRESS-ERROR-CODE}".into(), ctx.only.is_none());

    // XOR addresses: every transaction-id byte participates exactly where the RFC says
    let n = ctx.n(2_000, 150_000);
    ctx.cases("xor", n, |ctx, case, rng| {
        let addr = gen::sockaddr(rng);
        let kind = *rng.pick(&[2usize, 18, 19]);
        let mk = |a| match kind {
            2 => LAttr::XorMappedAddress(a),
            18 => LAttr::XorPeerAddress(a),
            _ => LAttr::XorRelayedAddress(a),
        };
        let t0 = gen::txid(rng);
        let m0 = LMsg { method: 1, class: 2, txid: t0, attrs: vec![mk(addr)], key: None };
        let Some(base) = lib_bytes(ctx, &m0) else { return };
        for i in 0..12 {
            let mut t = t0;
            t[i] ^= 1 << (case % 8);
            let m = LMsg { txid: t, ..m0.clone() };
            let Some(b) = lib_bytes(ctx, &m) else { continue };
            let diff: Vec<usize> = (0..b.len().min(base.len())).filter(|j| b[*j] != base[*j]).collect();
            // header byte 8+i always; for IPv6 additionally value byte: 20 (hdr) + 4 (attr hdr) + 4 + 4 + i
            let expect: Vec<usize> = if addr.is_ipv6() { vec![8 + i, 20 + 4 + 8 + i] } else { vec![8 + i] };
            if diff != expect || b.len() != base.len() {
                ctx.violation(
                    "xor-txid-byte-participation",
                    format!("flipping transaction id byte {} changed wire offsets {:?}, expected {:?}", i, diff, expect),
                    witness(&m, Some(&b)),
                );
            }
            ctx.count("xor.txid-byte-flips");
        }
        let b = forward(ctx, &m0);
        backward(ctx, &m0, &mut RngNoise(rng), "noise");
        ctx.eval(b.map(|b| fnv64(&b)));
    });

    // every kind with generated values; noise: random, all-ones, and exhaustive small domains
    let per_kind = ctx.n(2_000, 150_000);
    ctx.cases("kinds", per_kind * gen::ORDINARY_KINDS as u64, |ctx, case, rng| {
        let kind = (case % gen::ORDINARY_KINDS as u64) as usize;
        let a = gen::attr_of_kind(rng, kind, &cfg);
        ctx.count(&format!("kind.{}", a.kind_name()));
        let tb = rng.below(8) as u8;
        let mut attrs = vec![a];
        attrs.extend(gen::tail(tb));
        let key = if tb & 3 != 0 { Some(gen::key_spec(rng)) } else { None };
        let m = LMsg { method: gen::method(rng), class: rng.below(4) as u8, txid: gen::txid(rng), attrs, key };
        let b = forward(ctx, &m);
        backward(ctx, &m, &mut RngNoise(rng), "noise");
        backward(ctx, &m, &mut Const(0xFF), "all-ones");
        if ctx.want_sample() && case % 101 == 3 {
            let noisy = wire::build(&m, &mut Const(0xFF));
            ctx.sample(witness(&m, b.as_deref()).set("reference_with_all_ones_noise", J::s(hex_trunc(&noisy, 200))));
        }
        ctx.eval(b.map(|b| fnv64(&b)));
    });

    // exhaustive noise for the small ignorable fields: EVEN-PORT RFFU (7 bits) and the
    // address attributes' first byte (8 bits), padding bytes fixed to each of 256 values
    ctx.cases("noise-exhaustive", 256, |ctx, case, rng| {
        let v = case as u8;
        for a in [
            LAttr::EvenPort(rng.bool()),
            LAttr::MappedAddress(gen::sockaddr(rng)),
            LAttr::XorMappedAddress(gen::sockaddr(rng)),
            LAttr::Software(gen::string_bytes(rng, gen::Alpha::Ascii, 1 + (case % 3) as usize)),
            LAttr::ChannelNumber(rng.next_u32() as u16),
            LAttr::RequestedTransport(17),
            LAttr::RequestedAddressFamily(1),
            LAttr::Icmp { typ: 3, code: 1, data: [1, 2, 3, 4] },
            LAttr::ChangeRequest { ip: rng.bool(), port: rng.bool() },
            LAttr::ErrorCode { code: 401, reason: "x".into() },
        ] {
            let m = LMsg { method: 1, class: 2, txid: gen::txid(rng), attrs: vec![a, LAttr::Fingerprint], key: None };
            backward(ctx, &m, &mut Const(v), "const-byte");
        }
        ctx.count("noise.exhaustive-byte-values");
        ctx.eval(None);
    });
    ctx.exhaustive.insert("all 256 values of every single ignorable byte (EVEN-PORT RFFU, address first octet, padding, RFFU fields)".into(), ctx.only.is_none());

    // encoder contexts with custom padding (feature `experiments`): padding bytes take the
    // configured value everywhere (also between PASSWORD-ALGORITHMS entries), nothing else
    // changes; with random padding the message still decodes to the same content
    let n = ctx.n(6_000, 800_000);
    ctx.cases("custom-padding", n, |ctx, case, rng| {
        use stun_rs::{EncoderContextBuilder, MessageEncoderBuilder, StunPadding};
        let mut m = gen::message(rng, 6, &cfg);
        if case % 3 == 0 {
            let n = 2 + rng.below(3) as usize;
            m.attrs.insert(0, LAttr::PasswordAlgorithms((0..n).map(|_| (gen::alg_id(rng), gen::alg_params(rng))).collect()));
        }
        let Ok(Ok(lib_msg)) = guarded(|| bridge::to_lib_msg(&m)) else { return };
        let pad = rng.next_u64() as u8;
        let random = case % 4 == 1;
        let ectx = EncoderContextBuilder::default().with_custom_padding(if random { StunPadding::Random } else { StunPadding::Custom(pad) }).build();
        let enc = MessageEncoderBuilder::default().with_context(ectx).build();
        let need = 20 + wire::encoded_attr_bytes(&m);
        let mut buf = vec![0x11u8; need + 4];
        let r = guarded(|| enc.encode(&mut buf, &lib_msg).map_err(|e| e.to_string()));
        match r {
            Err(p) => report_panic(ctx, "encode-custom-padding", &p, witness(&m, None)),
            Ok(Err(e)) => ctx.violation("custom-padding-encode-failed", e, witness(&m, None)),
            Ok(Ok(size)) => {
                let got = &buf[..size.min(buf.len())];
                if !random {
                    let reference = wire::build(&m, &mut wire::PadOnly(pad));
                    if got != reference.as_slice() {
                        let off = got.iter().zip(reference.iter()).position(|(a, b)| a != b).unwrap_or(0);
                        ctx.violation(
                            &format!("custom-padding-bytes-differ:{}", kind_at(&m, &reference, off)),
                            format!("with custom padding {:#04x} the bytes differ from the reference at offset {}", pad, off),
                            witness(&m, Some(got)).set("reference", J::s(hex_trunc(&reference, 300))),
                        );
                    }
                }
                // whatever the padding, the content decodes unchanged (and validates)
                let key = m.key.as_ref().and_then(|k| bridge::lib_key(k).ok());
                let valid = m.attrs.iter().all(|a| match a {
                    LAttr::Realm { text, .. } | LAttr::Nonce { text, .. } => wire::valid_quoted_content(text),
                    _ => true,
                });
                if valid {
                    match decode(&decoder(if key.is_some() { Some(3) } else { Some(2) }, key.as_ref()), got) {
                        Err(p) => report_panic(ctx, "decode", &p, witness(&m, Some(got))),
                        Ok(Err(e)) => ctx.violation("custom-padding-decode-failed", e, witness(&m, Some(got))),
                        Ok(Ok((dm, _))) => {
                            let diffs = compare_decoded(&m, got, &dm, false);
                            if !diffs.is_empty() {
                                ctx.violation("custom-padding-changes-content", diffs.join("; "), witness(&m, Some(got)));
                            }
                        }
                    }
                }
                ctx.count(if random { "padding.random" } else { "padding.custom" });
            }
        }
        ctx.eval(Some(fnv64(&buf)));
    });

    // random messages, both directions
    let max_attrs = if ctx.quick() { 10 } else { 30 };
    let n = ctx.n(100_000, 8_000_000);
    ctx.cases("msgs", n, |ctx, case, rng| {
        let m = gen::message(rng, max_attrs, &cfg);
        let nontrivial = !m.attrs.is_empty();
        let b = forward(ctx, &m);
        backward(ctx, &m, &mut RngNoise(rng), "noise");
        if ctx.want_sample() && case % 1013 == 7 {
            ctx.sample(witness(&m, b.as_deref()));
        }
        ctx.eval(b.filter(|_| nontrivial).map(|b| fnv64(&b)));
    });
}

fn pick_reason(rng: &mut Rng) -> gen::Alpha {
    gen::pick_alpha(rng)
}

fn lib_bytes(ctx: &mut Ctx, m: &LMsg) -> Option<Vec<u8>> {
    let lib_msg = match guarded(|| bridge::to_lib_msg(m)) {
        Ok(Ok(x)) => x,
        _ => return None,
    };
    match encode(&lib_msg, 20 + wire::encoded_attr_bytes(m) + 8, 0) {
        Ok(Ok((buf, size))) => Some(buf[..size.min(buf.len())].to_vec()),
        Ok(Err(_)) => None,
        Err(p) => {
            report_panic(ctx, "encode", &p, witness(m, None));
            None
        }
    }
}
