//! rustun runtime-monitoring harness.  One process = one shard of one property.
//!
//!   harness run --prop C01 --tier quick --seed 1 --shard 0/16 --out DIR [--only stream:case] [--verbose] [--scale f]
//!   harness selftest
//!   harness merge-hashes FILE...      (prints the size of the union of u64 hash files)

mod bridge;
mod cred;
mod ctx;
mod gen;
mod json;
mod mutate;
mod oracle;
mod props;
mod refstun;
mod rng;
mod server;
mod sim;
mod walk;

use ctx::{Ctx, Tier};
use std::collections::HashSet;
use std::io::{Read, Write};
use std::path::PathBuf;

fn arg(args: &[String], name: &str) -> Option<String> {
    args.iter().position(|a| a == name).and_then(|i| args.get(i + 1).cloned())
}

fn write_hashes(path: &PathBuf, set: &HashSet<u64>) {
    if let Ok(mut f) = std::fs::File::create(path) {
        let mut buf = Vec::with_capacity(set.len() * 8);
        for h in set {
            buf.extend_from_slice(&h.to_le_bytes());
        }
        let _ = f.write_all(&buf);
    }
}

fn main() {
    // miri: argv comes through, env does not; everything is passed as arguments
    let args: Vec<String> = std::env::args().collect();
    let cmd = args.get(1).map(|s| s.as_str()).unwrap_or("");
    match cmd {
        "selftest" => match refstun::hash::self_test() {
            Ok(()) => println!("reference self-test ok"),
            Err(e) => {
                println!("INCONCLUSIVE reference self-test: {}", e);
                std::process::exit(2);
            }
        },
        "corpus" => {
            // seed corpus for the libFuzzer supplement: options byte + message bytes
            let out = PathBuf::from(arg(&args, "--out").expect("--out"));
            let seed: u64 = arg(&args, "--seed").and_then(|s| s.parse().ok()).unwrap_or(1);
            let _ = std::fs::create_dir_all(&out);
            let mut rng = rng::Rng::new(seed ^ 0xC0FFEE);
            let cfg = gen::GenCfg { max_blob: 64 };
            let mut n = 0;
            let mut put = |b: &[u8], rng: &mut rng::Rng| {
                let mut v = vec![rng.next_u64() as u8];
                v.extend_from_slice(b);
                let _ = std::fs::write(out.join(format!("seed-{:04}", n)), v);
                n += 1;
            };
            for v in [
                &stun_vectors::SAMPLE_REQUEST[..],
                &stun_vectors::SAMPLE_IPV4_RESPONSE[..],
                &stun_vectors::SAMPLE_IPV6_RESPONSE[..],
                &stun_vectors::SAMPLE_REQUEST_LONG_TERM_AUTH[..],
                &stun_vectors::SAMPLE_REQUEST_LONG_TERM_AUTH_SHA256[..],
            ] {
                for _ in 0..4 {
                    put(v, &mut rng);
                }
            }
            for _ in 0..300 {
                let m = gen::message(&mut rng, 6, &cfg);
                let b = refstun::wire::build(&m, &mut refstun::wire::RngNoise(&mut rng));
                put(&b, &mut rng);
            }
            println!("wrote {} corpus files", n);
        }
        "merge-hashes" => {
            let mut set: HashSet<u64> = HashSet::new();
            for p in &args[2..] {
                let mut data = Vec::new();
                if let Ok(mut f) = std::fs::File::open(p) {
                    let _ = f.read_to_end(&mut data);
                }
                for c in data.chunks_exact(8) {
                    let mut b = [0u8; 8];
                    b.copy_from_slice(c);
                    set.insert(u64::from_le_bytes(b));
                }
            }
            println!("{}", set.len());
        }
        "run" => {
            let prop = arg(&args, "--prop").expect("--prop");
            let tier = match arg(&args, "--tier").as_deref() {
                Some("thorough") => Tier::Thorough,
                _ => Tier::Quick,
            };
            let seed: u64 = arg(&args, "--seed").and_then(|s| s.parse().ok()).unwrap_or(1);
            let (shard, nshards) = match arg(&args, "--shard") {
                Some(s) => {
                    let mut it = s.split('/');
                    let a: u64 = it.next().unwrap().parse().unwrap();
                    let b: u64 = it.next().unwrap().parse().unwrap();
                    (a, b)
                }
                None => (0, 1),
            };
            let out = arg(&args, "--out").map(PathBuf::from);
            if let Err(e) = refstun::hash::self_test() {
                println!("INCONCLUSIVE reference self-test: {}", e);
                std::process::exit(2);
            }
            ctx::install_panic_hook();
            let mut c = Ctx::new(&prop, tier, seed, shard, nshards);
            c.verbose = args.iter().any(|a| a == "--verbose");
            if let Some(s) = arg(&args, "--scale") {
                c.scale = s.parse().unwrap_or(1.0);
            }
            if let Some(p) = arg(&args, "--profile-name") {
                c.profile = p;
            }
            if let Some(o) = arg(&args, "--only") {
                let mut it = o.rsplitn(2, ':');
                let case: u64 = it.next().unwrap().parse().expect("case number");
                let stream = it.next().expect("stream:case").to_string();
                c.only = Some((stream, case));
                c.verbose = true;
                sim::FULL_TRACE.store(true, std::sync::atomic::Ordering::Relaxed);
            }
            if let Some(dir) = &out {
                let _ = std::fs::create_dir_all(dir);
                c.set_progress_file(&dir.join(format!("progress-{}.txt", shard)));
            }
            match ctx::guarded(|| props::run(&prop, &mut c)) {
                Ok(Ok(())) => {}
                Ok(Err(e)) => {
                    println!("INCONCLUSIVE {}", e);
                    std::process::exit(2);
                }
                Err(p) => {
                    // a panic that escaped every guard: harness bug or foreign panic
                    println!(
                        "INCONCLUSIVE unguarded panic: {} at {} (stream/case {:?})",
                        p.message,
                        p.location,
                        c.cur()
                    );
                    std::process::exit(2);
                }
            }
            let j = c.to_json().to_string();
            match &out {
                Some(dir) => {
                    std::fs::write(dir.join(format!("shard-{}.json", shard)), &j).expect("write shard json");
                    write_hashes(&dir.join(format!("distinct-{}.bin", shard)), &c.distinct);
                    write_hashes(&dir.join(format!("states-{}.bin", shard)), &c.states);
                }
                None if c.only.is_none() => println!("{}", j),
                None => {}
            }
            if c.only.is_some() {
                for v in &c.violations {
                    println!("REPLAYED-VIOLATION sig={} detail={}", v.signature, v.detail);
                    println!("witness={}", v.witness.to_string());
                }
                if c.violations.is_empty() {
                    println!("REPLAY: no violation in this case");
                }
            }
        }
        _ => {
            eprintln!("usage: harness run|selftest|merge-hashes ...");
            std::process::exit(2);
        }
    }
}
