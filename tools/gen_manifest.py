#!/usr/bin/env python3
"""Regenerates /verif/MANIFEST.json from vlib/props.py (single source of truth)."""
import json, os, subprocess, sys
ROOT = os.path.dirname(os.path.dirname(os.path.abspath(__file__)))
sys.path.insert(0, os.path.join(ROOT, "vlib"))
import props as P

TECH = {
 "C01": "runtime monitoring: generated-value round-trip oracle over generated and exhaustively swept inputs",
 "C02": "runtime monitoring: differential oracle against an independent reference codec, both directions, exhaustive small domains",
 "C03": "runtime monitoring: panic/abort/CPU-progress supervision + post-condition monitors under structure-aware hostile inputs; ASan, Miri and a libFuzzer+ASan supplement in the thorough tier",
 "C04": "runtime monitoring: reference HMAC/key-derivation oracle with exhaustive single-bit and compound fault injection",
 "C05": "runtime monitoring: online per-transaction final-outcome automaton over the event log of simulated histories with post-mortem probes (hooked state only for design-independent checks)",
 "C06": "runtime monitoring: closed-form retransmission-schedule model checked online on a virtual clock (exact ns)",
 "C07": "runtime monitoring: byte-classified must/must-not-deliver oracle + reference HMAC verification of every emitted packet over simulated conversations",
 "C08": "runtime monitoring: conversation tracker + RFC 8489 9.2.4 reference-server acceptance oracle over simulated conversations; known findings keyed by signature",
 "C09": "runtime monitoring: reference admission rule over exhaustively enumerated attribute sequences x checksum variants x decoder options",
 "C10": "runtime monitoring: reference CRC oracle with exhaustive bit/byte fault injection; client enforcement monitor over simulated histories",
 "C11": "runtime monitoring: earliest-deadline notification oracle + bounded-liveness check at quiescence on simulated histories",
 "C12": "runtime monitoring: capacity-counter model from observed final outcomes + refusal-no-effect snapshot monitor on random walks",
 "C13": "runtime monitoring: strict reference parse/verify of every emitted packet against the application's attribute list",
 "C14": "runtime monitoring: reference length/bytes oracle over every buffer length and the 64 KiB boundary, dev and release builds",
 "C15": "runtime monitoring: double-precision RFC 6298 reference estimator compared online with the client's RTO (hook + boundary)",
 "C16": "runtime monitoring: position-tracking reassembly model over exhaustive 2-/3-cut chunkings",
 "C17": "runtime monitoring: before/after state-snapshot equality at every rejected buffer (hook) + twin-run continuation equivalence (boundary)",
 "C18": "runtime monitoring: metamorphic relations across all 17 decoder configurations on generated and mutated inputs",
 "C19": "runtime monitoring: panic monitor over the public API table with exhaustive small domains and hostile strings; clone-independence rendering oracle; Miri in the thorough tier",
}
LEVEL_TEXT = ("Runtime monitoring of the real code (rebuilt from /repo's working tree) under generated, hostile and stress workloads with an "
              "independent oracle; the verdict is 'held on the executions observed' - exhaustive only for the finite sub-domains named in the "
              "evidence. This is the strongest level the runtime-monitoring family offers for a property quantified over all inputs/histories.")
HOOKED = {"C03", "C05", "C06", "C07", "C08", "C10", "C11", "C12", "C13", "C15", "C17"}

def main():
    commits = subprocess.run(["git", "-C", "/repo", "log", "--format=%h %s"], stdout=subprocess.PIPE, text=True).stdout.splitlines()
    hook_commits = [c.split()[0] for c in commits if "verif-hooks" in c]
    checks = []
    for pid in sorted(P.PROPS):
        m = P.PROPS[pid]
        profs = m.get("profiles", ["dev"]) + ["(thorough: %s)" % "+".join(m["thorough_profiles"])] if m.get("thorough_profiles") else m.get("profiles", ["dev"])
        checks.append({
            "property_id": pid,
            "quick_cmd": "./check %s quick" % pid,
            "thorough_cmd": "./check %s thorough" % pid,
            "evidence_file": "evidence/%s.json" % pid,
            "replay_cmd_template": "./check %s --replay {path}" % pid,
            "engine": "harness",
            "level_claimed": {"category": m.get("level", "exploration"), "text": LEVEL_TEXT, "design_ref": "DESIGN.md section 5 (%s)" % pid},
            "level_note": ("trusted base: harness generators/bridge, reference codec + hashes (self-tested against RFC vectors at every start)"
                           + ("; uses the read-only verif-hooks snapshot, every hook-based check has a boundary-only counterpart" if pid in HOOKED else "; no hook needed")
                           + "; builds: " + ", ".join(profs)),
            "technique": TECH[pid],
        })
    man = {
        "version": 1,
        "setup_cmd": "./check --setup",
        "hooks": {
            "guard": "cargo feature `verif-hooks` of crate stun-agent (off by default)",
            "enable": "the harness crate depends on stun-agent with features=[\"verif-hooks\"] (harness/Cargo.toml); every check runs `cargo build --offline` in /verif/harness, which rebuilds /repo's current working tree through path dependencies",
            "baseline_off_cmd": "cd /repo && (cargo nextest run --workspace --no-fail-fast --tool-config-file pb:/w/lib/nextest.toml --profile pb --test-threads 8 --offline || cargo test --workspace --no-fail-fast --offline)",
            "source_commits": hook_commits,
            "add_only": True,
        },
        "engines": [{
            "name": "harness", "path": "harness", "serves_properties": sorted(P.PROPS),
            "kind_free_text": "Rust crate (path-deps on /repo crates, no other dependency): generators, structure-aware mutators, independent reference STUN codec/hashes (refstun), client simulation on a virtual clock with responder, online monitors; run as 16 shard processes by ./check (vlib/runner.py), which builds, supervises (exit status, signals, CPU-progress), merges, filters known findings and writes evidence",
        }],
        "checks": checks,
        "not_applicable": [],
        "notes": "All 19 properties are claimed at level `exploration` (runtime monitoring). KNOWN_FINDINGS.txt lists recorded findings (C08) and repaired defects. See DESIGN.md.",
    }
    with open(os.path.join(ROOT, "MANIFEST.json"), "w") as f:
        json.dump(man, f, indent=1)
    print("wrote MANIFEST.json with %d checks" % len(checks))

main()
