//! Credential-level monitors over the simulated conversation:
//!   C07 short-term credentials, C08 long-term credentials, C10 FINGERPRINT enforcement by
//!   the client, C13 well-formedness of every emitted packet.
//! Everything is classified FROM THE BYTES with the reference codec/HMAC/CRC, never from
//! what the library says about the message.

use crate::ctx::Ctx;
use crate::json::{hex_trunc, J};
use crate::refstun::wire::{self, LAttr, RawMsg, Zero};
use crate::server::{lt_key, LtServer};
use crate::sim::{short_id, Ev, FailReason, Id, Mech, OpResult, Sim, TxState};
use std::collections::HashMap;

pub use crate::sim::{M_C07, M_C08, M_C10, M_C13};

#[derive(Clone, Debug, PartialEq, Eq)]
pub enum LtPhase {
    First,
    After401,
    After438,
    Authenticated,
}

#[derive(Clone, Debug, Default)]
pub struct TxAuth {
    /// a response of this transaction definitely failed authentication (no integrity at all,
    /// or exactly one acceptable integrity attribute with a wrong MAC)
    pub failed_definite: bool,
    /// a response was rejected for a reason the statement leaves open
    pub failed_maybe: bool,
}

pub struct Cred {
    pub monitors: u32,
    /// short-term: agreed algorithm (false = MI, true = SHA256)
    pub agreed: Option<bool>,
    /// long-term: the oracle's own view of the conversation
    pub phase: LtPhase,
    pub cur: Option<LtServer>,
    pub tx_auth: HashMap<Id, TxAuth>,
    /// the client accepted a challenge the oracle did not craft (e.g. a mutated one): the
    /// long-term conversation is unknown until the next crafted challenge is accepted
    pub lost_sync: bool,
    /// short-term: a response the reference could not classify was delivered; the agreed
    /// algorithm is unknown from here on
    pub st_unknown: bool,
    /// long-term: key-derivation algorithm the client showed in a request since the current
    /// challenge was accepted
    pub chosen_alg: Option<u16>,
}

/// What the bytes of a received message say (reference view).
pub struct Classified {
    pub raw: RawMsg,
    pub mi: Option<(usize, Vec<u8>)>,
    pub sha: Option<(usize, Vec<u8>)>,
    /// first FINGERPRINT on the wire: Some(valid?)
    pub fp: Option<bool>,
    pub fp_last: bool,
}

/// Does the library's default decoder (the one `StunClient` is built with) reject these bytes?
pub fn lib_rejects(bytes: &[u8]) -> bool {
    let b = bytes.to_vec();
    crate::ctx::guarded(move || stun_rs::MessageDecoderBuilder::default().build().decode(&b).is_err()).unwrap_or(true)
}

pub fn classify(bytes: &[u8]) -> Option<Classified> {
    // like the decoder, look only at the 20 + length bytes the header declares
    let bytes = if bytes.len() >= 20 {
        let l = 20 + u16::from_be_bytes([bytes[2], bytes[3]]) as usize;
        if l < bytes.len() {
            &bytes[..l]
        } else {
            bytes
        }
    } else {
        bytes
    };
    let raw = wire::parse(bytes).ok()?;
    let types: Vec<u16> = raw.attrs.iter().map(|a| a.typ).collect();
    let adm = wire::admit(&types);
    let mut mi = None;
    let mut sha = None;
    let mut fp = None;
    let mut fp_last = false;
    for (i, a) in raw.attrs.iter().enumerate() {
        if !adm[i] {
            continue;
        }
        match a.typ {
            wire::T_MESSAGE_INTEGRITY if mi.is_none() => mi = Some((a.offset, a.value.clone())),
            wire::T_MESSAGE_INTEGRITY_SHA256 if sha.is_none() => sha = Some((a.offset, a.value.clone())),
            wire::T_FINGERPRINT if fp.is_none() => {
                fp = Some(a.value.len() == 4 && a.value == wire::fingerprint_value(bytes, a.offset).to_be_bytes());
                fp_last = i + 1 == raw.attrs.len();
            }
            _ => {}
        }
    }
    Some(Classified { raw, mi, sha, fp, fp_last })
}

impl Classified {
    pub fn mi_ok(&self, bytes: &[u8], key: &[u8]) -> bool {
        match &self.mi {
            Some((off, v)) => v.len() == 20 && v.as_slice() == wire::mac_sha1(key, bytes, *off),
            None => false,
        }
    }
    pub fn sha_ok(&self, bytes: &[u8], key: &[u8]) -> bool {
        match &self.sha {
            Some((off, v)) => v.len() == 32 && v.as_slice() == wire::mac_sha256(key, bytes, *off),
            None => false,
        }
    }
    pub fn error_code(&self) -> Option<u16> {
        let a = self.raw.find(wire::T_ERROR_CODE)?;
        if a.value.len() < 4 {
            return None;
        }
        Some((a.value[2] & 7) as u16 * 100 + a.value[3] as u16)
    }
}

fn delivered(evs: &[Ev], id: &Id, class: u8) -> bool {
    evs.iter().any(|e| matches!(e, Ev::Received { id: i, class: c, .. } if i == id && *c == class))
}

fn w(sim: &Sim, bytes: &[u8], extra: &str) -> J {
    let mut j = sim.witness();
    j.put("message", J::s(hex_trunc(bytes, 300)));
    j.put("note", J::s(extra));
    j
}

impl Cred {
    pub fn new(monitors: u32, mech: &Mech) -> Cred {
        Cred {
            monitors,
            agreed: match mech {
                Mech::ShortTerm(a) => *a,
                _ => None,
            },
            phase: LtPhase::First,
            cur: None,
            tx_auth: HashMap::new(),
            lost_sync: false,
            st_unknown: false,
            chosen_alg: None,
        }
    }

    fn on(&self, m: u32) -> bool {
        self.monitors & m != 0
    }

    fn v(&self, ctx: &mut Ctx, m: u32, sig: &str, detail: String, wit: J) {
        if self.on(m) {
            ctx.violation(sig, detail, wit);
        }
    }

    // -----------------------------------------------------------------------------------
    // outgoing packets (C07 / C08 / C10 / C13)

    /// `app`: attributes the application added, in insertion order (None = not tracked).
    pub fn on_output(&mut self, ctx: &mut Ctx, sim: &Sim, id: &Id, bytes: &[u8], method: u16, indication: bool, app: Option<&[LAttr]>, app_key: Option<&[u8]>) {
        let wit = || w(sim, bytes, if indication { "emitted indication" } else { "emitted request" });
        let raw = match wire::parse(bytes) {
            Ok(r) => r,
            Err(e) => {
                self.v(ctx, M_C13 | M_C07 | M_C08 | M_C10, "output:not-parsable", format!("emitted packet does not parse: {}", e), wit());
                return;
            }
        };
        ctx.count("output.packets-checked");
        let password = sim.cfg.password.as_bytes();
        let types: Vec<u16> = raw.attrs.iter().map(|a| a.typ).collect();
        // ---- C10: FINGERPRINT last and valid
        if sim.cfg.fingerprint {
            match raw.attrs.last() {
                Some(a) if a.typ == wire::T_FINGERPRINT => {
                    if a.value != wire::fingerprint_value(bytes, a.offset).to_be_bytes() {
                        self.v(ctx, M_C10 | M_C13, "c10:emitted-fingerprint-wrong", "the FINGERPRINT of an emitted packet is not the reference CRC".into(), wit());
                    }
                    ctx.count("c10.emitted-fingerprint-checked");
                }
                _ => self.v(ctx, M_C10 | M_C13, "c10:emitted-fingerprint-not-last", format!("fingerprint configured but the last attribute is {:?}", types.last()), wit()),
            }
        }
        // ---- C13 header
        let want_class = if indication { 1 } else { 0 };
        if raw.class != want_class || raw.method != (method & 0xFFF) {
            self.v(
                ctx,
                M_C13,
                "c13:wrong-class-or-method",
                format!("emitted class {} method {:#x}, asked class {} method {:#x}", raw.class, raw.method, want_class, method),
                wit(),
            );
        }
        if raw.txid != *id {
            self.v(ctx, M_C13, "c13:transaction-id-mismatch", "packet id differs from the id returned to the application".into(), wit());
        }
        // ---- tail structure: <= 1 MI, <= 1 SHA, <= 1 FP, in that order, last
        let tail_start = types.iter().position(|t| is_tail(*t)).unwrap_or(types.len());
        let tail = &types[tail_start..];
        let expected_tail_order: Vec<u16> = [wire::T_MESSAGE_INTEGRITY, wire::T_MESSAGE_INTEGRITY_SHA256, wire::T_FINGERPRINT].iter().copied().filter(|t| tail.contains(t)).collect();
        if tail != expected_tail_order.as_slice() {
            self.v(ctx, M_C13, "c13:tail-order", format!("integrity/fingerprint attributes are not <=1 MI, <=1 SHA256, <=1 FINGERPRINT in that order at the end: {:x?}", types), wit());
        }
        // ---- verification of the integrity attributes that are present
        let keys: Vec<Vec<u8>> = match &sim.cfg.mech {
            Mech::None => app_key.map(|k| vec![k.to_vec()]).unwrap_or_default(),
            Mech::ShortTerm(_) => vec![password.to_vec()],
            Mech::LongTerm => match self.cur.as_ref() {
                None => vec![],
                Some(c) => {
                    // key derivation algorithm: the PASSWORD-ALGORITHM of the request when
                    // present, else any supported algorithm of the offer (MD5 when none offered)
                    let algs: Vec<u16> = match raw.find(wire::T_PASSWORD_ALGORITHM) {
                        Some(a) if a.value.len() >= 2 => vec![u16::from_be_bytes([a.value[0], a.value[1]])],
                        _ => match &c.algs {
                            Some(l) => l.iter().map(|x| x.0).filter(|x| *x == 1 || *x == 2).collect(),
                            None => vec![1],
                        },
                    };
                    algs.iter().map(|a| lt_key(&sim.cfg.user, &c.realm, &sim.cfg.password, *a)).collect()
                }
            },
        };
        let skip_integrity = matches!(sim.cfg.mech, Mech::LongTerm) && self.lost_sync;
        for a in &raw.attrs[tail_start..] {
            let ok = match a.typ {
                wire::T_MESSAGE_INTEGRITY => skip_integrity || keys.iter().any(|k| a.value == wire::mac_sha1(k, bytes, a.offset)),
                wire::T_MESSAGE_INTEGRITY_SHA256 => skip_integrity || keys.iter().any(|k| a.value == wire::mac_sha256(k, bytes, a.offset)),
                _ => a.value == wire::fingerprint_value(bytes, a.offset).to_be_bytes(),
            };
            if !ok {
                let name = tail_name(a.typ);
                self.v(
                    ctx,
                    M_C13 | M_C07 | M_C08,
                    &format!("output:{}-does-not-verify", name),
                    format!("{} of an emitted packet does not verify under the configured credentials", name),
                    wit(),
                );
            }
        }
        // ---- C13 application attributes and replacement
        if let Some(app) = app {
            self.check_app_attrs(ctx, sim, bytes, &raw, app, tail_start);
        }
        // ---- mechanism specific request form
        match &sim.cfg.mech {
            Mech::ShortTerm(_) => self.st_output(ctx, sim, bytes, &raw),
            Mech::LongTerm if !indication => self.lt_output(ctx, sim, bytes, &raw),
            _ => {}
        }
        // password never on the wire
        if sim.cfg.mech != Mech::None && password.len() >= 10 && bytes.windows(password.len()).any(|x| x == password) {
            self.v(ctx, M_C08 | M_C07, "output:password-on-the-wire", "the password appears in an emitted packet".into(), wit());
        }
    }

    fn check_app_attrs(&self, ctx: &mut Ctx, sim: &Sim, bytes: &[u8], raw: &RawMsg, app: &[LAttr], tail_start: usize) {
        let wit = || w(sim, bytes, &format!("application attributes: {:?}", app.iter().map(|a| a.kind_name()).collect::<Vec<_>>()));
        // expected ordinary attributes: one per type, first-insertion position
        let owned: Vec<u16> = match &sim.cfg.mech {
            Mech::None => vec![],
            Mech::ShortTerm(_) => vec![wire::T_USERNAME],
            Mech::LongTerm => vec![wire::T_USERNAME, wire::T_USERHASH, wire::T_REALM, wire::T_NONCE, wire::T_PASSWORD_ALGORITHM, wire::T_PASSWORD_ALGORITHMS],
        };
        // one per type at the position of its first insertion; WHICH of several values supplied
        // for one type is kept is not stated (today: the last) - any of them is accepted
        let mut expect: Vec<(u16, Vec<Vec<u8>>)> = Vec::new();
        for a in app {
            let t = a.type_code();
            if is_tail(t) {
                continue;
            }
            let v = wire::attr_value(a, &raw.txid, &mut Zero);
            match expect.iter_mut().find(|e| e.0 == t) {
                Some(e) => e.1.push(v),
                None => expect.push((t, vec![v])),
            }
        }
        expect.retain(|e| !owned.contains(&e.0));
        let got: Vec<(u16, Vec<u8>)> = raw.attrs[..tail_start].iter().map(|a| (a.typ, a.value.clone())).collect();
        // the packet must start with exactly the expected application attributes ...
        let gt: Vec<u16> = got.iter().map(|g| g.0).collect();
        let et: Vec<u16> = expect.iter().map(|g| g.0).collect();
        let types_ok = gt.len() >= et.len() && gt[..et.len()] == et[..];
        let values_ok = types_ok && expect.iter().zip(got.iter()).all(|(e, g)| e.1.contains(&g.1));
        if values_ok && expect.iter().zip(got.iter()).any(|(e, g)| e.1.last() != Some(&g.1)) {
            ctx.count("c13.suspicion.duplicate-type-keeps-an-earlier-value");
        }
        if !values_ok {
            let sig = if types_ok { "c13:application-attribute-value" } else { "c13:application-attributes-order-or-set" };
            self.v(ctx, M_C13, sig, format!("packet attribute types {:x?} ; expected to start with the application's {:x?} (one per type, first-insertion order, a value the application supplied)", gt, et), wit());
            return;
        }
        // ... followed only by attributes owned by the mechanism, each at most once
        let rest = &got[expect.len()..];
        let mut seen: Vec<u16> = Vec::new();
        for (t, _) in rest {
            if !owned.contains(t) {
                self.v(ctx, M_C13, "c13:foreign-attribute-after-application-attributes", format!("attribute {:#06x} is neither the application's nor the mechanism's", t), wit());
            }
            if seen.contains(t) {
                self.v(ctx, M_C13, "c13:credential-attribute-duplicated", format!("attribute {:#06x} occurs twice", t), wit());
            }
            seen.push(*t);
        }
        ctx.count("c13.application-lists-checked");
    }

    fn st_output(&mut self, ctx: &mut Ctx, sim: &Sim, bytes: &[u8], raw: &RawMsg) {
        if self.st_unknown {
            return;
        }
        let wit = || w(sim, bytes, "short-term request/indication");
        let names = raw.attrs.iter().filter(|a| a.typ == wire::T_USERNAME).collect::<Vec<_>>();
        if names.len() != 1 || names[0].value != sim.cfg.user.as_bytes() {
            self.v(ctx, M_C07 | M_C13, "c07:username", format!("{} USERNAME attribute(s); value must be the configured user name", names.len()), wit());
        }
        let (mi, sha) = (raw.count(wire::T_MESSAGE_INTEGRITY), raw.count(wire::T_MESSAGE_INTEGRITY_SHA256));
        // What the statement demands: integrity that verifies (every integrity attribute present
        // is verified by the tail monitor above), i.e. at least one; once an algorithm is agreed,
        // that one.  That both are sent while none is agreed, and only the agreed one afterwards,
        // is what RFC 8489 9.1.2 and today's code do, but not what C07 states: counted, not judged.
        let ok = match self.agreed {
            None => mi + sha >= 1 && mi <= 1 && sha <= 1,
            Some(false) => mi == 1 && sha <= 1,
            Some(true) => sha == 1 && mi <= 1,
        };
        let rfc_form = match self.agreed {
            None => mi == 1 && sha == 1,
            Some(false) => mi == 1 && sha == 0,
            Some(true) => mi == 0 && sha == 1,
        };
        if !rfc_form {
            ctx.count("c07.suspicion.integrity-set-not-rfc-9.1.2");
        }
        if !ok {
            // also C13's business: "then the credential attributes the mechanism requires"
            self.v(
                ctx,
                M_C07 | M_C13,
                &format!("c07:integrity-set:{}", match self.agreed {
                    None => "none-agreed",
                    Some(false) => "sha1-agreed",
                    Some(true) => "sha256-agreed",
                }),
                format!("request carries {} MESSAGE-INTEGRITY and {} MESSAGE-INTEGRITY-SHA256 while agreed algorithm is {:?}", mi, sha, self.agreed),
                wit(),
            );
        }
        ctx.count("c07.outgoing-checked");
    }

    /// C08 oracle 1: request form per conversation phase + RFC 8489 9.2.4 server acceptance
    fn lt_output(&mut self, ctx: &mut Ctx, sim: &Sim, bytes: &[u8], raw: &RawMsg) {
        let wit = || w(sim, bytes, &format!("long-term request in phase {:?}", self.phase));
        let cred_types = [
            (wire::T_USERNAME, "USERNAME"),
            (wire::T_USERHASH, "USERHASH"),
            (wire::T_REALM, "REALM"),
            (wire::T_NONCE, "NONCE"),
            (wire::T_PASSWORD_ALGORITHMS, "PASSWORD-ALGORITHMS"),
            (wire::T_PASSWORD_ALGORITHM, "PASSWORD-ALGORITHM"),
            (wire::T_MESSAGE_INTEGRITY, "MESSAGE-INTEGRITY"),
            (wire::T_MESSAGE_INTEGRITY_SHA256, "MESSAGE-INTEGRITY-SHA256"),
        ];
        if self.lost_sync {
            ctx.count("c08.requests-skipped-lost-sync");
            return;
        }
        ctx.count(&format!("c08.requests.{:?}", self.phase));
        let Some(cur) = self.cur.clone() else {
            // before any challenge: no credential attribute at all, even if supplied by the application
            let present: Vec<&str> = cred_types.iter().filter(|(t, _)| raw.count(*t) > 0).map(|(_, n)| *n).collect();
            if !present.is_empty() {
                self.v(ctx, M_C08, &format!("c08:first-request-carries:{}", present.join("+")), format!("a request before any challenge carries {:?}", present), wit());
            }
            return;
        };
        let mut missing: Vec<&str> = Vec::new();
        let mut wrong: Vec<String> = Vec::new();
        let mut extra: Vec<&str> = Vec::new();
        // identity
        if cur.anonymity {
            match raw.find(wire::T_USERHASH) {
                Some(a) if a.value == wire::user_hash(&sim.cfg.user, &cur.realm) => {}
                Some(_) => wrong.push("USERHASH-value".into()),
                None => missing.push("USERHASH"),
            }
            if raw.count(wire::T_USERNAME) > 0 {
                extra.push("USERNAME");
            }
        } else {
            match raw.find(wire::T_USERNAME) {
                Some(a) if a.value == sim.cfg.user.as_bytes() => {}
                Some(_) => wrong.push("USERNAME-value".into()),
                None => missing.push("USERNAME"),
            }
            if raw.count(wire::T_USERHASH) > 0 {
                extra.push("USERHASH");
            }
        }
        if cur.realm.contains('\u{a0}') {
            ctx.count("lt.requests-under-non-opaquestring-realm");
        }
        match raw.find(wire::T_REALM) {
            Some(a) if a.value == cur.realm.as_bytes() => {}
            Some(_) => wrong.push("REALM-value".into()),
            None => missing.push("REALM"),
        }
        match raw.find(wire::T_NONCE) {
            Some(a) if a.value == cur.nonce.as_bytes() => {}
            Some(_) => wrong.push("NONCE-not-the-most-recent".into()),
            None => missing.push("NONCE"),
        }
        let mut key_alg = 1u16;
        match &cur.algs {
            Some(list) => {
                match raw.find(wire::T_PASSWORD_ALGORITHMS) {
                    Some(a) if a.value == crate::server::algs_value(list) => {}
                    Some(_) => wrong.push("PASSWORD-ALGORITHMS-differs-from-offer".into()),
                    None => missing.push("PASSWORD-ALGORITHMS"),
                }
                match raw.find(wire::T_PASSWORD_ALGORITHM) {
                    Some(a) if a.value.len() >= 4 => {
                        let alg = u16::from_be_bytes([a.value[0], a.value[1]]);
                        // which supported entry is "chosen" is the client's business
                        if (alg == 1 || alg == 2) && list.iter().any(|x| x.0 == alg) {
                            key_alg = alg;
                            self.chosen_alg = Some(alg);
                        } else {
                            wrong.push("PASSWORD-ALGORITHM-not-offered".into());
                        }
                    }
                    Some(_) => wrong.push("PASSWORD-ALGORITHM-malformed".into()),
                    None => missing.push("PASSWORD-ALGORITHM"),
                }
            }
            None => {
                if raw.count(wire::T_PASSWORD_ALGORITHMS) > 0 {
                    extra.push("PASSWORD-ALGORITHMS");
                }
                if raw.count(wire::T_PASSWORD_ALGORITHM) > 0 {
                    extra.push("PASSWORD-ALGORITHM");
                }
            }
        }
        // key derivation algorithm: the request's PASSWORD-ALGORITHM when present and offered,
        // otherwise any supported algorithm of the offer (MD5 when nothing was offered)
        let has_pa = raw.find(wire::T_PASSWORD_ALGORITHM).map(|a| a.value.len() >= 4).unwrap_or(false);
        let cand: Vec<u16> = match (&cur.algs, has_pa) {
            (Some(l), false) => l.iter().map(|x| x.0).filter(|x| *x == 1 || *x == 2).collect(),
            _ => vec![key_alg],
        };
        let keys: Vec<Vec<u8>> = cand.iter().map(|a| lt_key(&sim.cfg.user, &cur.realm, &sim.cfg.password, *a)).collect();
        let want_sha = cur.algs.is_some();
        let (have, other, name, other_name) = if want_sha {
            (raw.find(wire::T_MESSAGE_INTEGRITY_SHA256), raw.count(wire::T_MESSAGE_INTEGRITY), "MESSAGE-INTEGRITY-SHA256", "MESSAGE-INTEGRITY")
        } else {
            (raw.find(wire::T_MESSAGE_INTEGRITY), raw.count(wire::T_MESSAGE_INTEGRITY_SHA256), "MESSAGE-INTEGRITY", "MESSAGE-INTEGRITY-SHA256")
        };
        match have {
            Some(a) => {
                let ok = keys.iter().any(|key| if want_sha { a.value == wire::mac_sha256(key, bytes, a.offset) } else { a.value == wire::mac_sha1(key, bytes, a.offset) });
                if !ok {
                    wrong.push(format!("{}-does-not-verify-under-derived-key", name));
                }
            }
            None => missing.push("integrity"),
        }
        if other > 0 {
            extra.push(other_name);
        }
        if missing.is_empty() && wrong.is_empty() && extra.is_empty() {
            ctx.count("c08.requests-accepted-by-reference-server");
            return;
        }
        let phase = match self.phase {
            LtPhase::First => "first",
            LtPhase::After401 => "after-401",
            LtPhase::After438 => "after-438",
            LtPhase::Authenticated => "authenticated",
        };
        let mut parts: Vec<String> = Vec::new();
        if !missing.is_empty() {
            let mut m = missing.clone();
            m.sort();
            parts.push(format!("missing={}", m.join("+")));
        }
        if !wrong.is_empty() {
            wrong.sort();
            parts.push(format!("wrong={}", wrong.join("+")));
        }
        if !extra.is_empty() {
            extra.sort();
            parts.push(format!("extra={}", extra.join("+")));
        }
        let algs = if cur.algs.is_some() { "algs-offered" } else { "no-algs" };
        // C13 cares about replaced-not-duplicated and about the VALUES of the credential
        // attributes that are present, not about which ones are required in which state
        let value_wrong: Vec<&String> = wrong.iter().filter(|x| !x.contains("does-not-verify")).collect();
        if self.on(M_C13) && !self.on(M_C08) && (!value_wrong.is_empty() || !extra.is_empty()) {
            ctx.violation(
                &format!("c13:long-term-credential-attributes:wrong={}:extra={}", value_wrong.iter().map(|x| x.as_str()).collect::<Vec<_>>().join("+"), extra.join("+")),
                format!("credential attributes of an emitted request do not carry the mechanism's values: {}", parts.join(" ")),
                wit(),
            );
        }
        self.v(
            ctx,
            M_C08,
            &format!("c08:request-form:{}:{}:{}", phase, algs, parts.join(":")),
            format!(
                "request in phase {} would be rejected by an RFC 8489 9.2.4 server: {} (realm {:?}, nonce {:?}, offered {:?}, anonymity {})",
                phase,
                parts.join(" "),
                cur.realm,
                cur.nonce,
                cur.algs,
                cur.anonymity
            ),
            wit(),
        );
    }

    // -----------------------------------------------------------------------------------
    // incoming buffers

    /// `before_awaiting`: was the id of the buffer awaiting a response before the call?
    pub fn on_delivery(&mut self, ctx: &mut Ctx, sim: &Sim, bytes: &[u8], res: &OpResult, evs: &[Ev], before_awaiting: bool, challenge: Option<&LtServer>, new_nonce: Option<&str>) {
        // Precondition of the credential oracles: a message the decoder accepts.  Bytes the
        // library reports as undecodable belong to the "undecodable buffer" class (C03/C17);
        // what they would have meant is not decided by C07/C08/C10.
        // (Decided by running the decoder the client uses - the default one - on the same bytes,
        // not by the text of the client's error, which is free to change.)
        if matches!(res, OpResult::RecvErr(_)) && lib_rejects(bytes) {
            ctx.count("recv.undecodable-skipped");
            return;
        }
        let Some(c) = classify(bytes) else {
            ctx.count("recv.not-classifiable");
            // the library may have processed it all the same: any later time-out reason of
            // this transaction is left open
            if bytes.len() >= 20 {
                let mut id = [0u8; 12];
                id.copy_from_slice(&bytes[8..20]);
                self.tx_auth.entry(id).or_default().failed_maybe = true;
            }
            if evs.iter().any(|e| matches!(e, Ev::Received { class, .. } if *class >= 2)) {
                self.st_unknown = true;
                self.lost_sync = true;
            }
            return;
        };
        let id = c.raw.txid;
        let class = c.raw.class;
        if class == 0 {
            return;
        }
        let is_resp = class >= 2;
        let was_delivered = delivered(evs, &id, class);
        let rejected = matches!(res, OpResult::RecvErr(_));
        // ---- C10: fingerprint gate
        if sim.cfg.fingerprint {
            let fp_bad = !matches!(c.fp, Some(true));
            if fp_bad {
                ctx.count("c10.bad-or-missing-fingerprint-received");
                if !rejected || !evs.is_empty() {
                    self.v(
                        ctx,
                        M_C10,
                        &format!("c10:message-with-{}-fingerprint-not-rejected", if c.fp.is_none() { "missing" } else { "wrong" }),
                        format!("result {:?}, events {:?}", res, evs.iter().map(|e| e.brief()).collect::<Vec<_>>()),
                        w(sim, bytes, "received with bad/missing FINGERPRINT"),
                    );
                }
                if is_resp && before_awaiting {
                    let still = sim.index.get(&id).map(|i| sim.txs[*i].state == TxState::Awaiting).unwrap_or(false);
                    let in_table = sim.client.verif_snapshot().outstanding.iter().any(|o| o.0.as_bytes() == &id);
                    if !still || !in_table {
                        self.v(ctx, M_C10, "c10:bad-fingerprint-completed-transaction", "a response with a bad/missing FINGERPRINT ended its transaction".into(), w(sim, bytes, ""));
                    }
                    ctx.count("c10.transaction-survived-bad-fingerprint");
                }
                return; // the credential mechanism must not even see it
            } else if sim.cfg.mech == Mech::None && c.fp_last && is_resp && before_awaiting {
                ctx.count("c10.good-fingerprint-delivered");
                if !was_delivered {
                    self.v(ctx, M_C10, "c10:valid-fingerprint-response-not-delivered", format!("result {:?}", res), w(sim, bytes, ""));
                }
            }
        }
        if is_resp && !before_awaiting {
            return; // C05's business
        }
        match &sim.cfg.mech {
            Mech::None => {}
            Mech::ShortTerm(_) => self.st_delivery(ctx, sim, bytes, &c, res, evs, was_delivered, rejected),
            Mech::LongTerm => self.lt_delivery(ctx, sim, bytes, &c, res, evs, was_delivered, rejected, challenge, new_nonce),
        }
    }

    fn st_delivery(&mut self, ctx: &mut Ctx, sim: &Sim, bytes: &[u8], c: &Classified, res: &OpResult, evs: &[Ev], was_delivered: bool, rejected: bool) {
        if self.st_unknown {
            return;
        }
        let key = sim.cfg.password.as_bytes();
        let id = c.raw.txid;
        let is_resp = c.raw.class >= 2;
        let (mi_ok, sha_ok) = (c.mi_ok(bytes, key), c.sha_ok(bytes, key));
        let both = c.mi.is_some() && c.sha.is_some();
        let none = c.mi.is_none() && c.sha.is_none();
        let agreed = self.agreed;
        // must-not-deliver
        let must_not = (is_resp && both)
            || match agreed {
                Some(false) => !mi_ok,
                Some(true) => !sha_ok,
                None => !mi_ok && !sha_ok,
            };
        // must-deliver: exactly one integrity attribute, verifying, of an acceptable algorithm
        let exactly_one = c.mi.is_some() != c.sha.is_some();
        let must = exactly_one
            && match agreed {
                Some(false) => mi_ok,
                Some(true) => sha_ok,
                None => mi_ok || sha_ok,
            };
        // definite authentication failure in the sense of the statement ("wrong or absent")
        let definite_fail = none
            || (exactly_one
                && match agreed {
                    Some(false) => c.mi.is_some() && !mi_ok,
                    Some(true) => c.sha.is_some() && !sha_ok,
                    None => !mi_ok && !sha_ok,
                });
        let wit = |s: &str| w(sim, bytes, s);
        let desc = format!(
            "class {} MI={} SHA256={} agreed={:?} -> result {:?}, events {:?}",
            c.raw.class,
            if c.mi.is_none() { "absent" } else if mi_ok { "valid" } else { "wrong" },
            if c.sha.is_none() { "absent" } else if sha_ok { "valid" } else { "wrong" },
            agreed,
            res,
            evs.iter().map(|e| e.brief()).collect::<Vec<_>>()
        );
        let shape = format!(
            "{}:{}:{}",
            if is_resp { "response" } else { "indication" },
            if none { "no-integrity" } else if both { "both" } else if c.mi.is_some() { if mi_ok { "mi-valid" } else { "mi-wrong" } } else if sha_ok { "sha-valid" } else { "sha-wrong" },
            match agreed {
                None => "none-agreed",
                Some(false) => "sha1-agreed",
                Some(true) => "sha256-agreed",
            }
        );
        ctx.count(&format!("c07.incoming.{}", shape));
        if must_not && was_delivered {
            self.v(ctx, M_C07, &format!("c07:unauthenticated-delivered:{}", shape), desc.clone(), wit("must not be delivered"));
        }
        if must && !was_delivered {
            self.v(ctx, M_C07, &format!("c07:authenticated-not-delivered:{}", shape), desc.clone(), wit("must be delivered"));
        }
        if !is_resp {
            if !was_delivered && (!rejected || !evs.is_empty()) {
                self.v(ctx, M_C07, "c07:rejected-indication-produced-events", desc, wit(""));
            }
            return;
        }
        if was_delivered {
            // learning: an authenticated response fixes the algorithm
            if self.agreed.is_none() {
                if exactly_one {
                    self.agreed = Some(c.sha.is_some());
                    ctx.count("c07.algorithm-learned");
                } else {
                    // delivered with both/none is already reported above
                    self.agreed = Some(c.sha.is_some() && !c.mi.is_some());
                }
            }
            return;
        }
        // failing response
        let pv_now = evs.iter().any(|e| matches!(e, Ev::Failed { id: i, reason: FailReason::ProtectionViolated } if *i == id));
        if sim.cfg.reliable.is_some() {
            if definite_fail && !pv_now {
                self.v(ctx, M_C07, &format!("c07:reliable-no-protection-violated:{}", shape), desc, wit("reliable transport: must end with protection violated"));
            }
            ctx.count("c07.reliable-failing-responses");
        } else {
            if !rejected || !evs.is_empty() {
                self.v(ctx, M_C07, &format!("c07:unreliable-failing-response-not-ignored:{}", shape), desc, wit("unreliable transport: must be ignored"));
            }
            let e = self.tx_auth.entry(id).or_default();
            if definite_fail {
                e.failed_definite = true;
            } else {
                e.failed_maybe = true;
            }
            ctx.count("c07.unreliable-failing-responses");
        }
    }

    /// final failure reason at time-out (unreliable): protection violated iff a response of
    /// this transaction failed authentication and none was accepted
    pub fn on_timeout_events(&mut self, ctx: &mut Ctx, sim: &Sim, evs: &[Ev]) {
        // the time-out reason clause belongs to the short-term property (C07) only
        if !matches!(sim.cfg.mech, Mech::ShortTerm(_)) || sim.cfg.reliable.is_some() || self.st_unknown {
            return;
        }
        for e in evs {
            if let Ev::Failed { id, reason } = e {
                let a = self.tx_auth.get(id).cloned().unwrap_or_default();
                let m = M_C07;
                match reason {
                    FailReason::TimedOut if a.failed_definite => {
                        self.v(ctx, m, "cred:timeout-instead-of-protection-violated", format!("request {} had a response that failed authentication, none was accepted, but the final failure is TimedOut", short_id(id)), sim.witness());
                    }
                    FailReason::ProtectionViolated if !a.failed_definite && !a.failed_maybe => {
                        self.v(ctx, m, "cred:protection-violated-without-failed-response", format!("request {} is reported protection-violated but no response of it failed authentication", short_id(id)), sim.witness());
                    }
                    _ => {}
                }
                if a.failed_definite {
                    ctx.count("cred.timeout-after-failed-auth");
                }
            }
        }
    }

    #[allow(clippy::too_many_arguments)]
    fn lt_delivery(&mut self, ctx: &mut Ctx, sim: &Sim, bytes: &[u8], c: &Classified, res: &OpResult, evs: &[Ev], was_delivered: bool, rejected: bool, challenge: Option<&LtServer>, new_nonce: Option<&str>) {
        let id = c.raw.txid;
        if self.lost_sync && !(c.raw.class == 3 && c.error_code() == Some(401) && challenge.is_some()) {
            return;
        }
        let wit = |s: &str| w(sim, bytes, s);
        let desc = format!("phase {:?} result {:?} events {:?}", self.phase, res, evs.iter().map(|e| e.brief()).collect::<Vec<_>>());
        if c.raw.class == 1 {
            ctx.count("c08.indications-received");
            if !rejected || !evs.is_empty() {
                self.v(ctx, M_C08, "c08:indication-not-refused", desc, wit("long-term credentials cannot protect indications"));
            }
            return;
        }
        let retry = evs.iter().any(|e| matches!(e, Ev::Retry { id: i } if *i == id));
        let code = if c.raw.class == 3 { c.error_code() } else { None };
        let no_integrity = c.mi.is_none() && c.sha.is_none();
        // key / expected integrity under the current challenge
        let auth = self.cur.as_ref().map(|cur| {
            let want_sha = cur.algs.is_some();
            // the client may have chosen either offered algorithm: accept a MAC under either
            let keys: Vec<Vec<u8>> = match &cur.algs {
                None => vec![lt_key(&sim.cfg.user, &cur.realm, &sim.cfg.password, 1)],
                Some(l) => l.iter().filter(|x| x.0 == 1 || x.0 == 2).map(|x| lt_key(&sim.cfg.user, &cur.realm, &sim.cfg.password, x.0)).collect(),
            };
            let ok = keys.iter().any(|k| if want_sha { c.sha_ok(bytes, k) } else { c.mi_ok(bytes, k) });
            let only_expected = if want_sha { c.sha.is_some() && c.mi.is_none() } else { c.mi.is_some() && c.sha.is_none() };
            (ok, only_expected)
        });
        // verification under the key the client is known to use (for the must-deliver side)
        let ok_chosen = self.cur.as_ref().map(|cur| {
            let alg = match (&cur.algs, self.chosen_alg) {
                (None, _) => Some(1),
                (Some(_), Some(a)) => Some(a),
                (Some(l), None) => {
                    let sup: Vec<u16> = l.iter().map(|x| x.0).filter(|x| *x == 1 || *x == 2).collect();
                    if sup.len() == 1 { Some(sup[0]) } else { None }
                }
            };
            match alg {
                Some(a) => {
                    let k = lt_key(&sim.cfg.user, &cur.realm, &sim.cfg.password, a);
                    if cur.algs.is_some() { c.sha_ok(bytes, &k) } else { c.mi_ok(bytes, &k) }
                }
                None => false,
            }
        }).unwrap_or(false);
        match code {
            Some(401) => {
                ctx.count("c08.401-received");
                let realm = c.raw.find(wire::T_REALM);
                let nonce = c.raw.find(wire::T_NONCE);
                let well_formed = challenge.is_some() && realm.is_some() && nonce.is_some() && c.raw.count(wire::T_REALM) == 1
                    && (c.raw.count(wire::T_NONCE) == 1 || (c.raw.count(wire::T_NONCE) == 2 && challenge.map(|ch| nonce.map(|n| n.value == ch.nonce.as_bytes()).unwrap_or(false)).unwrap_or(false)));
                if well_formed && c.raw.count(wire::T_NONCE) == 2 {
                    ctx.count("c08.401-with-repeated-nonce");
                }
                let pa_on_wire = c.raw.count(wire::T_PASSWORD_ALGORITHMS) > 0;
                let cookie_demands_pa = nonce
                    .map(|n| n.value.len() >= 13 && n.value.starts_with(b"obMatJos2") && matches!(n.value[9], b'g'..=b'z' | b'0'..=b'9' | b'+' | b'/'))
                    .unwrap_or(false);
                if well_formed && no_integrity && !(cookie_demands_pa && !pa_on_wire) {
                    let ch = challenge.unwrap();
                    let supported = ch.algs.as_ref().map(|l| l.iter().any(|x| x.0 == 1 || x.0 == 2)).unwrap_or(true);
                    if supported {
                        if !retry {
                            self.v(ctx, M_C08, "c08:challenge-not-answered-with-retry", desc.clone(), wit("a well-formed 401 without integrity must make the client ask for a retry"));
                        }
                    } else if retry || was_delivered {
                        self.v(ctx, M_C08, "c08:unsupported-algorithms-accepted", desc.clone(), wit("401 offering no supported algorithm"));
                    }
                }
                if retry {
                    match challenge {
                        Some(ch) => {
                            if realm.is_none() || nonce.is_none() {
                                self.v(ctx, M_C08, "c08:retry-on-incomplete-challenge", desc.clone(), wit("401 without REALM or NONCE cannot be retried"));
                            }
                            let mut adopted = ch.clone();
                            if !pa_on_wire {
                                adopted.algs = None;
                                adopted.key_alg = 1;
                            }
                            self.cur = Some(adopted);
                            self.chosen_alg = None;
                            self.phase = LtPhase::After401;
                            self.lost_sync = false;
                            ctx.count("c08.challenges-accepted");
                        }
                        None => {
                            // a 401 the oracle did not craft (mutated): conversation unknown
                            self.lost_sync = true;
                            ctx.count("c08.lost-sync");
                        }
                    }
                }
            }
            Some(438) => {
                ctx.count("c08.438-received");
                let nonce = c.raw.find(wire::T_NONCE);
                // must-retry only when the integrity verifies under the key the client is known
                // to use (ok_chosen), not merely under some key it could have chosen
                if self.cur.is_some() && nonce.is_some() && new_nonce.is_some() && (no_integrity || (ok_chosen && auth.map(|a| a.1).unwrap_or(false))) && !retry {
                    self.v(ctx, M_C08, "c08:stale-nonce-not-answered-with-retry", desc.clone(), wit("438 with a new nonce must make the client ask for a retry"));
                }
                if retry {
                    if let (Some(cur), Some(n)) = (self.cur.as_mut(), nonce) {
                        cur.nonce = String::from_utf8_lossy(&n.value).to_string();
                        self.phase = LtPhase::After438;
                        ctx.count("c08.stale-nonce-accepted");
                    }
                }
            }
            _ => {
                // success and ordinary error responses
                let (ok, only_expected) = auth.unwrap_or((false, false));
                let shape = format!(
                    "{}:{}",
                    if c.raw.class == 2 { "success" } else { "error" },
                    if self.cur.is_none() { "before-challenge" } else if no_integrity { "no-integrity" } else if ok { "authenticated" } else { "wrong-integrity" }
                );
                ctx.count(&format!("c08.incoming.{}", shape));
                if was_delivered && !ok {
                    self.v(ctx, M_C08, &format!("c08:unauthenticated-delivered:{}", shape), desc.clone(), wit("must not be delivered"));
                }
                if ok_chosen && only_expected && !was_delivered && c.raw.class == 2 {
                    self.v(ctx, M_C08, &format!("c08:authenticated-not-delivered:{}", shape), desc.clone(), wit("must be delivered"));
                }
                if was_delivered && self.cur.is_some() {
                    self.phase = LtPhase::Authenticated;
                }
            }
        }
        let _ = id;
    }
}

pub fn is_tail(t: u16) -> bool {
    t == wire::T_MESSAGE_INTEGRITY || t == wire::T_MESSAGE_INTEGRITY_SHA256 || t == wire::T_FINGERPRINT
}

fn tail_name(t: u16) -> &'static str {
    match t {
        wire::T_MESSAGE_INTEGRITY => "MESSAGE-INTEGRITY",
        wire::T_MESSAGE_INTEGRITY_SHA256 => "MESSAGE-INTEGRITY-SHA256",
        _ => "FINGERPRINT",
    }
}
