//! C01 Encode -> decode round trip.  Oracle: the generated logical message itself.

use super::{decode, decoder, encode, report_panic};
use crate::bridge;
use crate::ctx::Ctx;
use crate::gen::{self, GenCfg};
use crate::json::{hex_trunc, J};
use crate::oracle::compare_decoded;
use crate::refstun::wire::{self, LAttr, LMsg};
use crate::rng::{fnv64, Rng};

pub fn witness(m: &LMsg, bytes: Option<&[u8]>) -> J {
    let mut w = J::obj().set("message", J::s(gen::describe_msg(m)));
    if let Some(b) = bytes {
        w.put("encoded", J::s(hex_trunc(b, 400)));
    }
    w
}

/// One round trip; returns the encoded bytes when encoding worked.
pub fn roundtrip(ctx: &mut Ctx, m: &LMsg, rng: &mut Rng) -> Option<Vec<u8>> {
    let need = 20 + wire::encoded_attr_bytes(m);
    let lib_msg = match crate::ctx::guarded(|| bridge::to_lib_msg(m)) {
        Err(p) => {
            report_panic(ctx, "construct", &p, witness(m, None));
            return None;
        }
        Ok(Err(e)) => {
            ctx.violation(
                "construct-rejected",
                format!("a value inside its documented range was rejected by the constructor: {}", e),
                witness(m, None),
            );
            return None;
        }
        Ok(Ok(x)) => x,
    };
    let slack = match rng.below(4) {
        0 => 0,
        1 => 1 + rng.below(8) as usize,
        _ => 64 + rng.below(512) as usize,
    };
    let (buf, size) = match encode(&lib_msg, need + slack, rng.next_u64() as u8) {
        Err(p) => {
            report_panic(ctx, "encode", &p, witness(m, None));
            return None;
        }
        Ok(Err(e)) => {
            ctx.violation(
                "encode-failed",
                format!("encode failed on a buffer of needed+{} bytes: {}", slack, e),
                witness(m, None),
            );
            return None;
        }
        Ok(Ok(x)) => x,
    };
    let bytes = &buf[..size.min(buf.len())];
    let hdr_len = if bytes.len() >= 4 { u16::from_be_bytes([bytes[2], bytes[3]]) as usize } else { usize::MAX };
    if size != need || size % 4 != 0 || hdr_len.wrapping_add(20) != size {
        ctx.violation(
            "size-mismatch",
            format!(
                "encoder returned {} ; reference size {} ; 20+header length {}",
                size,
                need,
                hdr_len.wrapping_add(20)
            ),
            witness(m, Some(bytes)),
        );
        return None;
    }
    // decode: default decoder, context-less decoder alternately
    let opts = if rng.bool() { None } else { Some(0u8) };
    let dec = decoder(opts, None);
    match decode(&dec, bytes) {
        Err(p) => report_panic(ctx, "decode", &p, witness(m, Some(bytes))),
        Ok(Err(e)) => {
            let sig = format!("decode-failed:{}", decode_error_kind(m, &e));
            ctx.violation(&sig, format!("decoding the encoder's own output failed: {}", e), witness(m, Some(bytes)))
        }
        Ok(Ok((got, consumed))) => {
            if consumed != size {
                ctx.violation(
                    "consumed-mismatch",
                    format!("decoder consumed {} of {} bytes", consumed, size),
                    witness(m, Some(bytes)),
                );
            }
            let diffs = compare_decoded(m, bytes, &got, false);
            if !diffs.is_empty() {
                let kind = first_kind(m, &diffs);
                ctx.violation(
                    &format!("roundtrip-differs:{}", kind),
                    diffs.join("; "),
                    witness(m, Some(bytes)),
                );
            }
        }
    }
    // the same bytes through a validating decoder under the message's own key (when it carries an
    // integrity attribute or FINGERPRINT): the encoder's output must validate and decode to the same
    // message in that configuration too (seeded change C01-A7: input text of a tail that ends past
    // byte 65,535 of the message)
    let has_tail = m.attrs.iter().any(|a| a.is_tail());
    if has_tail {
        let key = m.key.as_ref().and_then(|k| bridge::lib_key(k).ok());
        let dec = decoder(Some(if key.is_some() { 3 } else { 2 }), key.as_ref());
        match decode(&dec, bytes) {
            Err(p) => report_panic(ctx, "decode-validating", &p, witness(m, Some(bytes))),
            Ok(Err(e)) => ctx.violation(
                &format!("validating-decode-failed:{}", if size > 65_000 { "near-64k" } else { "ordinary-size" }),
                format!("decoding the encoder's own output with validation under the key it was made with failed: {}", e),
                witness(m, Some(bytes)),
            ),
            Ok(Ok((got, _))) => {
                ctx.count("roundtrip.validated");
                if !compare_decoded(m, bytes, &got, false).is_empty() {
                    ctx.violation("validating-roundtrip-differs", "message decoded with validation differs".into(), witness(m, Some(bytes)));
                }
            }
        }
    }
    Some(bytes.to_vec())
}

/// Signature component for a decode failure: kind of the attribute at the reported
/// position plus the library's error text (digits removed).
pub fn decode_error_kind(m: &LMsg, err: &str) -> String {
    let kind = err
        .find("position: ")
        .and_then(|i| {
            let rest = &err[i + 10..];
            let end = rest.find(|c: char| !c.is_ascii_digit()).unwrap_or(rest.len());
            rest[..end].parse::<usize>().ok()
        })
        .and_then(|i| m.attrs.get(i))
        .map(|a| a.kind_name())
        .unwrap_or("message");
    let tail = err.rsplit("error: ").next().unwrap_or(err);
    let clean: String = tail.chars().filter(|c| !c.is_ascii_digit()).collect();
    format!("{}:{}", kind, clean.trim())
}

fn first_kind(m: &LMsg, diffs: &[String]) -> String {
    // signature component: kind of the first differing attribute, else "header"
    for d in diffs {
        if let Some(rest) = d.strip_prefix("attr[") {
            if let Some(end) = rest.find(']') {
                if let Ok(i) = rest[..end].parse::<usize>() {
                    if let Some(a) = m.attrs.get(i) {
                        return a.kind_name().to_string();
                    }
                }
            }
        }
    }
    "header".into()
}

pub fn run(ctx: &mut Ctx) {
    let cfg = GenCfg::default();

    // (a) all 4096 x 4 (method, class) pairs, exhaustively in both tiers
    ctx.cases("types", 16384, |ctx, case, rng| {
        let method = (case / 4) as u16;
        let class = (case % 4) as u8;
        let attrs = if case % 3 == 0 { vec![] } else { vec![gen::attr_of_kind(rng, (case % 35) as usize, &GenCfg { max_blob: 40 })] };
        let nontrivial = !attrs.is_empty();
        let m = LMsg { method, class, txid: gen::txid(rng), attrs, key: None };
        let b = roundtrip(ctx, &m, rng);
        ctx.count("types.pairs");
        ctx.eval(b.filter(|_| nontrivial).map(|b| fnv64(&b)));
    });
    ctx.exhaustive.insert("all 16384 (method,class) pairs".into(), ctx.only.is_none());

    // (b) every kind x boundary value classes
    let per_kind = ctx.n(3_000, 200_000);
    ctx.cases("kinds", per_kind * gen::ORDINARY_KINDS as u64, |ctx, case, rng| {
        let kind = (case % gen::ORDINARY_KINDS as u64) as usize;
        let a = gen::attr_of_kind(rng, kind, &cfg);
        ctx.count(&format!("kind.{}", a.kind_name()));
        if let LAttr::UserName(s) | LAttr::Software(s) | LAttr::Realm { text: s, .. } | LAttr::Nonce { text: s, .. } = &a {
            match s.len() {
                0 => ctx.count("strlen.0"),
                1 => ctx.count("strlen.1"),
                508 => ctx.count("strlen.508"),
                509 => ctx.count("strlen.509"),
                _ => {}
            }
        }
        let tb = rng.below(8) as u8;
        let mut attrs = vec![a];
        attrs.extend(gen::tail(tb));
        ctx.count(&format!("tail.{}", tb));
        let key = if tb & 3 != 0 { Some(gen::key_spec(rng)) } else { None };
        let m = LMsg { method: gen::method(rng), class: rng.below(4) as u8, txid: gen::txid(rng), attrs, key };
        let b = roundtrip(ctx, &m, rng);
        if ctx.want_sample() && case % 97 == 0 {
            ctx.sample(witness(&m, b.as_deref()));
        }
        ctx.eval(b.map(|b| fnv64(&b)));
    });

    // (c) random sequences of attributes
    let max_attrs = if ctx.quick() { 12 } else { 40 };
    let n = ctx.n(160_000, 12_000_000);
    ctx.cases("msgs", n, |ctx, case, rng| {
        let m = gen::message(rng, max_attrs, &cfg);
        for w in m.attrs.windows(2) {
            // pairwise kind coverage (adjacent kinds)
            let h = (w[0].kind() * 64 + w[1].kind()) as u64;
            ctx.state(h);
        }
        ctx.count(&format!("nattrs.{}", bucket(m.attrs.len())));
        let nontrivial = !m.attrs.is_empty();
        let b = roundtrip(ctx, &m, rng);
        if ctx.want_sample() && case % 1009 == 1 {
            ctx.sample(witness(&m, b.as_deref()));
        }
        ctx.eval(b.filter(|_| nontrivial).map(|b| fnv64(&b)));
    });

    // (c') very long attribute lists: hundreds to thousands of attributes, one kind repeated or a
    // few kinds alternating (counters, indices and offsets beyond 255 / 4096)
    let n = ctx.n(60, 4_000);
    ctx.cases("many-attributes", n, |ctx, case, rng| {
        let small = GenCfg { max_blob: 8 };
        let count = *rng.pick(&[255usize, 256, 257, 300, 511, 512, 1000, 2000, 4095, 4096, 5000]);
        let nk = 1 + rng.usize_below(3);
        let kinds: Vec<usize> = (0..nk).map(|_| rng.usize_below(gen::ORDINARY_KINDS)).collect();
        let mut attrs: Vec<LAttr> = Vec::with_capacity(count + 3);
        let mut bytes = 0usize;
        for i in 0..count {
            let a = gen::attr_of_kind(rng, kinds[i % nk], &small);
            let l = wire::attr_value(&a, &[0; 12], &mut wire::Zero).len();
            bytes += 4 + l + (4 - l % 4) % 4;
            if bytes > 64_000 {
                break;
            }
            attrs.push(a);
        }
        let tb = rng.below(8) as u8;
        attrs.extend(gen::tail(tb));
        let key = if tb & 3 != 0 { Some(gen::key_spec(rng)) } else { None };
        let m = LMsg { method: gen::method(rng), class: rng.below(4) as u8, txid: gen::txid(rng), attrs, key };
        ctx.count("many-attributes.messages");
        ctx.count_n("many-attributes.attributes", m.attrs.len() as u64);
        let b = roundtrip(ctx, &m, rng);
        if ctx.want_sample() && case % 29 == 1 {
            ctx.sample(J::obj().set("attributes", J::u(m.attrs.len())).set("kinds", J::arr(kinds.iter().map(|k| J::u(*k)))));
        }
        ctx.eval(b.map(|b| fnv64(&b)));
    });

    // (e) near-maximum messages with an integrity / FINGERPRINT tail (attribute bytes 65,400..65,532):
    // the tail ends in the last bytes a 16-bit length can describe
    let n = ctx.n(96, 4_000);
    ctx.cases("near-limit-tails", n, |ctx, case, rng| {
        let total = 65_532 - 4 * ((case % 12) as usize) - if case % 24 >= 12 { 80 } else { 0 };
        let m = super::c14::assemble(rng, total, true);
        ctx.count("near-limit-tails.messages");
        let b = roundtrip(ctx, &m, rng);
        ctx.eval(b.map(|b| fnv64(&b[..64]) ^ total as u64));
    });

    // (d) large values: blobs up to 60 KiB (sizes near the 16-bit limit are C14's business)
    let n = ctx.n(200, 12_000);
    ctx.cases("large", n, |ctx, _case, rng| {
        let big = GenCfg { max_blob: 60_000 };
        let k = *rng.pick(&[20usize, 29, 32]);
        let a = gen::attr_of_kind(rng, k, &big);
        ctx.count(&format!("large.{}", a.kind_name()));
        let mut attrs = vec![a];
        attrs.extend(gen::tail(rng.below(8) as u8));
        let key = Some(gen::key_spec(rng));
        let m = LMsg { method: gen::method(rng), class: rng.below(4) as u8, txid: gen::txid(rng), attrs, key };
        if wire::encoded_attr_bytes(&m) > 65_000 {
            return;
        }
        let b = roundtrip(ctx, &m, rng);
        ctx.eval(b.map(|b| fnv64(&b)));
    });
}

pub fn bucket(n: usize) -> &'static str {
    match n {
        0 => "0",
        1 => "1",
        2..=4 => "2-4",
        5..=12 => "5-12",
        13..=24 => "13-24",
        _ => "25+",
    }
}
