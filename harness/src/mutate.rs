//! Structure-aware mutators of STUN messages (hostile inputs for C03/C17/C18).

use crate::refstun::wire::{self, RngNoise, WAttr, KNOWN_TYPES};
use crate::rng::Rng;

/// byte snippets injected into attribute values: multi-byte UTF-8 of every length,
/// invalid UTF-8 (overlong, lone continuation, surrogate, > U+10FFFF), quoting and
/// white-space characters
pub const SNIPPETS: [&[u8]; 22] = [
    "\u{e9}".as_bytes(),
    "\u{65e5}".as_bytes(),
    "\u{1f600}".as_bytes(),
    "\u{c0}\u{80}".as_bytes(),
    "\u{a0}".as_bytes(),
    "\u{ad}".as_bytes(),
    "e\u{301}".as_bytes(),
    b"\xC0\x80",
    b"\x80",
    b"\xBF",
    b"\xED\xA0\x80",
    b"\xF4\x90\x80\x80",
    b"\xFF",
    b"\xE2\x82",
    b"\"",
    b"\\",
    b"\r",
    b"\n",
    b"\t",
    b" ",
    b"\0",
    b"\r\n ",
];

/// Mutation classes (for coverage counters).
pub const CLASSES: [&str; 14] = [
    "bitflip",
    "byte-set",
    "truncate",
    "extend",
    "header-length-edit",
    "attr-length-edit",
    "nested-length-edit",
    "value-inject",
    "value-resize",
    "type-change",
    "dup-attr",
    "del-attr",
    "splice",
    "random-bytes",
];

#[derive(Clone, Debug)]
pub struct Parts {
    pub method: u16,
    pub class: u8,
    pub txid: [u8; 12],
    pub attrs: Vec<(u16, Vec<u8>)>,
}

pub fn parts_of(bytes: &[u8]) -> Option<Parts> {
    let m = wire::parse(bytes).ok()?;
    Some(Parts {
        method: m.method,
        class: m.class,
        txid: m.txid,
        attrs: m.attrs.into_iter().map(|a| (a.typ, a.value)).collect(),
    })
}

pub fn rebuild(p: &Parts, rng: &mut Rng, noisy_padding: bool) -> Vec<u8> {
    let w: Vec<WAttr> = p.attrs.iter().map(|(t, v)| WAttr::Raw(*t, v.clone())).collect();
    if noisy_padding {
        wire::build_raw(p.method, p.class, &p.txid, &w, &mut RngNoise(rng))
    } else {
        wire::build_raw(p.method, p.class, &p.txid, &w, &mut wire::Zero)
    }
}

fn attr_offsets(bytes: &[u8]) -> Vec<usize> {
    // lenient walk (stops at the first inconsistency)
    let mut v = Vec::new();
    let mut pos = 20;
    while pos + 4 <= bytes.len() {
        v.push(pos);
        let len = u16::from_be_bytes([bytes[pos + 2], bytes[pos + 3]]) as usize;
        pos += 4 + len + wire::pad_len(len);
    }
    v
}

/// One structural operation on the attribute list; returns the class index.
fn structural_op(rng: &mut Rng, p: &mut Parts, donors: &[Vec<u8>]) -> usize {
    let n = p.attrs.len();
    let op = if n == 0 { 12 } else { *rng.pick(&[7usize, 7, 7, 8, 8, 9, 9, 10, 11, 12]) };
    match op {
        7 => {
            let i = rng.usize_below(n);
            let v = &mut p.attrs[i].1;
            let at = rng.usize_below(v.len() + 1);
            let snip = *rng.pick(&SNIPPETS);
            let reps = 1 + rng.below(3) as usize;
            for _ in 0..reps {
                for (k, b) in snip.iter().enumerate() {
                    v.insert((at + k).min(v.len()), *b);
                }
            }
        }
        8 => {
            let i = rng.usize_below(n);
            let v = &mut p.attrs[i].1;
            match rng.below(6) {
                0 => v.clear(),
                1 => {
                    let k = rng.usize_below(v.len() + 1);
                    v.truncate(k);
                }
                2 => {
                    let extra = 1 + rng.below(8) as usize;
                    let e = rng.bytes(extra);
                    v.extend_from_slice(&e);
                }
                3 => {
                    let l = *rng.pick(&[1usize, 2, 3, 4, 5, 7, 8, 19, 20, 21, 31, 32, 33, 508, 509, 510, 763, 764, 1000]);
                    *v = rng.bytes(l);
                }
                4 => {
                    // keep length, randomise content
                    let l = v.len();
                    *v = rng.bytes(l);
                }
                _ => {
                    if !v.is_empty() {
                        let k = rng.usize_below(v.len());
                        v.remove(k);
                    }
                }
            }
        }
        9 => {
            let i = rng.usize_below(n);
            p.attrs[i].0 = if rng.chance(3, 4) { *rng.pick(&KNOWN_TYPES) } else { rng.next_u32() as u16 };
        }
        10 => {
            let i = rng.usize_below(n);
            let a = p.attrs[i].clone();
            let at = rng.usize_below(n + 1);
            p.attrs.insert(at, a);
        }
        11 => {
            let i = rng.usize_below(n);
            p.attrs.remove(i);
        }
        _ => {
            if let Some(d) = donors.get(rng.usize_below(donors.len().max(1))).and_then(|d| parts_of(d)) {
                if !d.attrs.is_empty() {
                    let a = d.attrs[rng.usize_below(d.attrs.len())].clone();
                    let at = rng.usize_below(n + 1);
                    p.attrs.insert(at, a);
                }
            }
        }
    }
    op
}

/// Mutate `base` (a valid message).  Returns the mutated bytes and the mutation classes
/// that were applied.
pub fn mutate(rng: &mut Rng, base: &[u8], donors: &[Vec<u8>]) -> (Vec<u8>, Vec<usize>) {
    let mut classes = Vec::new();
    let mut out: Vec<u8>;
    let strategy = rng.below(10);
    if strategy < 5 {
        // structural, header length kept consistent so that attribute decoders run
        match parts_of(base) {
            Some(mut p) => {
                for _ in 0..1 + rng.below(3) {
                    classes.push(structural_op(rng, &mut p, donors));
                }
                if rng.chance(1, 8) {
                    p.class = rng.below(4) as u8;
                }
                let noisy = rng.bool();
                out = rebuild(&p, rng, noisy);
            }
            None => out = base.to_vec(),
        }
        if rng.chance(1, 4) {
            let c = byte_level(rng, &mut out);
            classes.push(c);
        }
    } else if strategy < 9 {
        out = base.to_vec();
        for _ in 0..1 + rng.below(3) {
            let c = byte_level(rng, &mut out);
            classes.push(c);
        }
    } else {
        classes.push(13);
        out = random_message(rng);
    }
    (out, classes)
}

fn byte_level(rng: &mut Rng, out: &mut Vec<u8>) -> usize {
    let c = *rng.pick(&[0usize, 0, 1, 2, 3, 4, 5, 5, 6]);
    match c {
        0 => {
            if !out.is_empty() {
                for _ in 0..1 + rng.below(3) {
                    let i = rng.usize_below(out.len());
                    out[i] ^= 1 << rng.below(8);
                }
            }
        }
        1 => {
            if !out.is_empty() {
                let i = rng.usize_below(out.len());
                let r = rng_byte(rng);
                out[i] = *rng.pick(&[0u8, 0xFF, 0x80, 0x7F, r]);
            }
        }
        2 => {
            let k = rng.usize_below(out.len() + 1);
            out.truncate(k);
            if rng.bool() && out.len() >= 20 {
                let l = (out.len() - 20) as u16;
                out[2..4].copy_from_slice(&l.to_be_bytes());
            }
        }
        3 => {
            let extra = 1 + rng.below(40) as usize;
            let e = rng.bytes(extra);
            out.extend_from_slice(&e);
            if rng.bool() && out.len() >= 20 && out.len() - 20 <= 65535 {
                let l = (out.len() - 20) as u16;
                out[2..4].copy_from_slice(&l.to_be_bytes());
            }
        }
        4 => {
            if out.len() >= 4 {
                let cur = u16::from_be_bytes([out[2], out[3]]);
                let v = match rng.below(8) {
                    0 => 0,
                    1 => 0xFFFF,
                    2 => cur.wrapping_add(1),
                    3 => cur.wrapping_sub(1),
                    4 => cur.wrapping_add(4),
                    5 => cur.wrapping_sub(4),
                    6 => cur ^ 0x8000,
                    _ => rng.next_u32() as u16,
                };
                out[2..4].copy_from_slice(&v.to_be_bytes());
            }
        }
        5 => {
            let offs = attr_offsets(out);
            if !offs.is_empty() {
                let o = offs[rng.usize_below(offs.len())];
                if o + 4 <= out.len() {
                    let cur = u16::from_be_bytes([out[o + 2], out[o + 3]]);
                    let v = match rng.below(8) {
                        0 => 0,
                        1 => 0xFFFF,
                        2 => cur.wrapping_add(1),
                        3 => cur.wrapping_sub(1),
                        4 => cur.wrapping_add(4),
                        5 => (out.len() - o - 4) as u16, // exactly to the end of the buffer
                        6 => (out.len() - o - 4) as u16 + 1,
                        _ => rng.next_u32() as u16,
                    };
                    out[o + 2..o + 4].copy_from_slice(&v.to_be_bytes());
                }
            }
        }
        _ => {
            // nested length: PASSWORD-ALGORITHM(S) parameter length fields / ERROR-CODE class
            let offs = attr_offsets(out);
            for o in offs {
                if o + 8 <= out.len() {
                    let t = u16::from_be_bytes([out[o], out[o + 1]]);
                    if t == wire::T_PASSWORD_ALGORITHM || t == wire::T_PASSWORD_ALGORITHMS {
                        let v: u16 = *rng.pick(&[0u16, 1, 3, 4, 5, 0xFFFF, 0xFFFC, 0xFFFB, 0x8000]);
                        out[o + 6..o + 8].copy_from_slice(&v.to_be_bytes());
                        break;
                    }
                    if t == wire::T_ERROR_CODE || t == wire::T_ADDRESS_ERROR_CODE {
                        out[o + 6] = rng_byte(rng);
                        out[o + 7] = rng_byte(rng);
                        break;
                    }
                }
            }
        }
    }
    c
}

fn rng_byte(rng: &mut Rng) -> u8 {
    rng.next_u64() as u8
}

/// Random bytes, optionally dressed with a valid header and TLV-looking body.
pub fn random_message(rng: &mut Rng) -> Vec<u8> {
    match rng.below(4) {
        0 => {
            let n = rng.below(64) as usize;
            rng.bytes(n)
        }
        1 => {
            let n = rng.below(70_000) as usize;
            rng.bytes(n)
        }
        _ => {
            let mut txid = [0u8; 12];
            rng.fill(&mut txid);
            let n = rng.below(6) as usize;
            let attrs: Vec<WAttr> = (0..n)
                .map(|_| {
                    let t = if rng.chance(4, 5) { *rng.pick(&KNOWN_TYPES) } else { rng.next_u32() as u16 };
                    let l = *rng.pick(&[0usize, 1, 2, 3, 4, 5, 8, 12, 20, 32, 33, 64]);
                    WAttr::Raw(t, rng.bytes(l))
                })
                .collect();
            let (m, c) = (rng.below(0x1000) as u16, rng.below(4) as u8);
            wire::build_raw(m, c, &txid, &attrs, &mut RngNoise(rng))
        }
    }
}

/// Re-address a message to transaction `txid` and recompute what a sender with `key`
/// would recompute: the first MESSAGE-INTEGRITY / -SHA256 MAC (when `key` is given) and
/// the FINGERPRINT CRC (when `fix_fp`).  Attribute values are otherwise left as they are.
pub fn readdress_and_resign(bytes: &[u8], txid: &[u8; 12], key: Option<&[u8]>, fix_fp: bool, class: Option<u8>) -> Vec<u8> {
    let Ok(m) = wire::parse(bytes) else {
        let mut b = bytes.to_vec();
        if b.len() >= 20 {
            b[8..20].copy_from_slice(txid);
        }
        return b;
    };
    let mut w: Vec<WAttr> = Vec::new();
    let (mut mi, mut sha, mut fp) = (false, false, false);
    for a in &m.attrs {
        match a.typ {
            wire::T_MESSAGE_INTEGRITY if key.is_some() && !mi && a.value.len() == 20 => {
                mi = true;
                w.push(WAttr::Mi(key.unwrap().to_vec(), None));
            }
            wire::T_MESSAGE_INTEGRITY_SHA256 if key.is_some() && !sha && a.value.len() == 32 => {
                sha = true;
                w.push(WAttr::Mi256(key.unwrap().to_vec(), None));
            }
            wire::T_FINGERPRINT if fix_fp && !fp && a.value.len() == 4 => {
                fp = true;
                w.push(WAttr::Fp(None));
            }
            _ => w.push(WAttr::Raw(a.typ, a.value.clone())),
        }
    }
    wire::build_raw(m.method, class.unwrap_or(m.class), txid, &w, &mut wire::Zero)
}
