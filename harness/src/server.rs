//! The other side of the conversation: crafts responses / indications with the reference
//! codec (so "valid" means valid per the RFCs, not per stun-rs) and keeps the server-side
//! view of a long-term credential conversation.

use crate::refstun::hash;
use crate::refstun::wire::{self, WAttr, Zero};
use crate::rng::Rng;
use crate::sim::{Id, Mech, SimCfg};

#[derive(Clone, Debug, PartialEq, Eq)]
pub enum Integ {
    None,
    Mi,
    Sha,
    Both,
    /// correct attribute kind, corrupted MAC
    MiBad,
    ShaBad,
    /// MAC computed under another password / key
    MiWrongKey,
    ShaWrongKey,
}

#[derive(Clone, Copy, Debug, PartialEq, Eq)]
pub enum Fp {
    Absent,
    Good,
    Bad,
    /// a FINGERPRINT that is not the last attribute: [.., FP(good at that point), SOFTWARE]
    NotLast,
    /// [.., FP(CRC taken with the whole datagram's length: wrong), SOFTWARE]
    NotLastWholeLen,
    /// [.., FP(good at that point), FP(CRC with the whole length)]: first one is the RFC value
    DoubleFirstGood,
    /// [.., FP(CRC with the whole length: wrong), FP(good at that point)]
    DoubleFirstWholeLen,
}

#[derive(Clone, Debug)]
pub struct Reply {
    pub class: u8,
    pub method: u16,
    pub txid: Id,
    pub error_code: Option<(u16, String)>,
    /// extra attributes placed before the integrity attributes (type, value)
    pub extra: Vec<(u16, Vec<u8>)>,
    pub integ: Integ,
    pub key: Vec<u8>,
    pub fp: Fp,
}

pub fn error_code_value(code: u16, reason: &str) -> Vec<u8> {
    let mut v = vec![0, 0, (code / 100) as u8, (code % 100) as u8];
    v.extend_from_slice(reason.as_bytes());
    v
}

pub fn xor_mapped_value(txid: &Id) -> Vec<u8> {
    wire::attr_value(&wire::LAttr::XorMappedAddress(wire::v4(192, 0, 2, 1, 32853)), txid, &mut Zero)
}

pub fn craft(r: &Reply) -> Vec<u8> {
    let mut a: Vec<WAttr> = Vec::new();
    if r.class == 2 {
        a.push(WAttr::Raw(wire::T_XOR_MAPPED_ADDRESS, xor_mapped_value(&r.txid)));
    }
    if let Some((code, reason)) = &r.error_code {
        a.push(WAttr::Raw(wire::T_ERROR_CODE, error_code_value(*code, reason)));
    }
    for (t, v) in &r.extra {
        a.push(WAttr::Raw(*t, v.clone()));
    }
    let wrong: Vec<u8> = {
        let mut k = r.key.clone();
        k.extend_from_slice(b"-not");
        k
    };
    match r.integ {
        Integ::None => {}
        Integ::Mi => a.push(WAttr::Mi(r.key.clone(), None)),
        Integ::Sha => a.push(WAttr::Mi256(r.key.clone(), None)),
        Integ::Both => {
            a.push(WAttr::Mi(r.key.clone(), None));
            a.push(WAttr::Mi256(r.key.clone(), None));
        }
        Integ::MiBad => a.push(WAttr::Mi(r.key.clone(), Some(0x5A))),
        Integ::ShaBad => a.push(WAttr::Mi256(r.key.clone(), Some(0xA5))),
        Integ::MiWrongKey => a.push(WAttr::Mi(wrong, None)),
        Integ::ShaWrongKey => a.push(WAttr::Mi256(wrong, None)),
    }
    match r.fp {
        Fp::Absent => {}
        Fp::Good => a.push(WAttr::Fp(None)),
        Fp::Bad => a.push(WAttr::Fp(Some(0x0100_0000))),
        Fp::NotLast => {
            a.push(WAttr::Fp(None));
            a.push(WAttr::Raw(wire::T_SOFTWARE, b"after-fp".to_vec()));
        }
        Fp::NotLastWholeLen => {
            a.push(WAttr::FpWhole);
            a.push(WAttr::Raw(wire::T_SOFTWARE, b"after-fp".to_vec()));
        }
        Fp::DoubleFirstGood => {
            a.push(WAttr::Fp(None));
            a.push(WAttr::FpWhole);
        }
        Fp::DoubleFirstWholeLen => {
            a.push(WAttr::FpWhole);
            a.push(WAttr::Fp(None));
        }
    }
    wire::build_raw(r.method, r.class, &r.txid, &a, &mut Zero)
}

/// Server-side view of a long-term conversation.
#[derive(Clone, Debug, Default)]
pub struct LtServer {
    pub realm: String,
    pub nonce: String,
    /// offered PASSWORD-ALGORITHMS (None = not offered)
    pub algs: Option<Vec<(u16, Vec<u8>)>>,
    /// algorithm the client is expected to derive its key with (1 = MD5, 2 = SHA-256)
    pub key_alg: u16,
    pub anonymity: bool,
    pub counter: u32,
}

pub fn lt_key(user: &str, realm: &str, password: &str, alg: u16) -> Vec<u8> {
    // `user` and `password` arrive in enforced form; the realm arrives as sent on the wire and the
    // only non-OpaqueString construct the responder generates in it is U+00A0 (mapped to U+0020)
    let s = format!("{}:{}:{}", user, realm.replace('\u{a0}', " "), password);
    if alg == 2 {
        hash::sha256(s.as_bytes()).to_vec()
    } else {
        hash::md5(s.as_bytes()).to_vec()
    }
}

/// base64 (standard alphabet) of three bytes
pub fn b64_3(b: [u8; 3]) -> String {
    const T: &[u8; 64] = b"ABCDEFGHIJKLMNOPQRSTUVWXYZabcdefghijklmnopqrstuvwxyz0123456789+/";
    let n = ((b[0] as u32) << 16) | ((b[1] as u32) << 8) | b[2] as u32;
    [(n >> 18) & 63, (n >> 12) & 63, (n >> 6) & 63, n & 63].iter().map(|i| T[*i as usize] as char).collect()
}

/// nonce with the RFC 8489 9.2 nonce cookie: "obMatJos2" + base64(24 feature bits) + rest
pub fn cookie_nonce(password_algorithms: bool, anonymity: bool, rest: &str) -> String {
    cookie_nonce_bits(password_algorithms, anonymity, 0, rest)
}

/// Same, with some of the 22 feature bits no RFC has assigned yet set as well (`unassigned` is
/// masked to them): a newer server announcing features this client does not know; the two
/// assigned bits keep their meaning.
pub fn cookie_nonce_bits(password_algorithms: bool, anonymity: bool, unassigned: u32, rest: &str) -> String {
    let mut bits = unassigned & 0x003F_FFFF;
    if password_algorithms {
        bits |= 0x80_0000;
    }
    if anonymity {
        bits |= 0x40_0000;
    }
    format!("obMatJos2{}{}", b64_3([(bits >> 16) as u8, (bits >> 8) as u8, bits as u8]), rest)
}

pub fn algs_value(list: &[(u16, Vec<u8>)]) -> Vec<u8> {
    wire::attr_value(&wire::LAttr::PasswordAlgorithms(list.to_vec()), &[0; 12], &mut Zero)
}

/// What kind of answer the responder gives to a request.
#[derive(Clone, Debug, PartialEq, Eq)]
pub enum Plan {
    /// acceptable response (authenticated when a mechanism is configured)
    Good { error: Option<u16> },
    /// response that must fail authentication
    BadAuth(Integ),
    /// long-term challenges
    Challenge401 { algs: u8, anonymity: bool, cookie: bool, new_realm: bool },
    Stale438,
    /// fingerprint faults (only meaningful when the client uses fingerprints)
    FpFault(Fp),
    Silence,
}

pub struct Responder {
    pub cfg: SimCfg,
    pub lt: Option<LtServer>,
    pub seq: u32,
}

impl Responder {
    pub fn new(cfg: &SimCfg) -> Self {
        Responder { cfg: cfg.clone(), lt: None, seq: 0 }
    }

    pub fn fp(&self) -> Fp {
        if self.cfg.fingerprint {
            Fp::Good
        } else {
            Fp::Absent
        }
    }

    /// key and integrity kind an acceptable response must use right now
    pub fn good_auth(&self, st_prefer_sha: bool) -> (Integ, Vec<u8>) {
        match &self.cfg.mech {
            Mech::None => (Integ::None, vec![]),
            Mech::ShortTerm(alg) => {
                let sha = alg.unwrap_or(st_prefer_sha);
                (if sha { Integ::Sha } else { Integ::Mi }, self.cfg.password.as_bytes().to_vec())
            }
            Mech::LongTerm => match &self.lt {
                Some(lt) => (
                    if lt.algs.is_some() { Integ::Sha } else { Integ::Mi },
                    lt_key(&self.cfg.user, &lt.realm, &self.cfg.password, lt.key_alg),
                ),
                None => (Integ::None, vec![]),
            },
        }
    }

    /// An acceptable response for `txid`.
    pub fn good(&self, txid: &Id, method: u16, error: Option<u16>, st_prefer_sha: bool) -> Vec<u8> {
        let (integ, key) = self.good_auth(st_prefer_sha);
        craft(&Reply {
            class: if error.is_some() { 3 } else { 2 },
            method,
            txid: *txid,
            error_code: error.map(|c| (c, "err".to_string())),
            extra: vec![],
            integ,
            key,
            fp: self.fp(),
        })
    }

    pub fn bad_auth(&self, txid: &Id, method: u16, integ: Integ, error: Option<u16>) -> Vec<u8> {
        let key = match &self.cfg.mech {
            Mech::LongTerm => match &self.lt {
                Some(lt) => lt_key(&self.cfg.user, &lt.realm, &self.cfg.password, lt.key_alg),
                None => b"no-key-yet".to_vec(),
            },
            _ => self.cfg.password.as_bytes().to_vec(),
        };
        craft(&Reply {
            class: if error.is_some() { 3 } else { 2 },
            method,
            txid: *txid,
            error_code: error.map(|c| (c, "err".to_string())),
            extra: vec![],
            integ,
            key,
            fp: self.fp(),
        })
    }

    /// 401 challenge; returns the bytes and the server state that becomes current if the
    /// client accepts it (emits Retry).
    pub fn challenge(&mut self, rng: &mut Rng, txid: &Id, method: u16, algs: u8, anonymity: bool, cookie: bool, new_realm: bool) -> (Vec<u8>, LtServer) {
        self.challenge_variant(rng, txid, method, algs, anonymity, cookie, new_realm, 0)
    }

    /// variant: 6 well-formed plus a second NONCE with contradicting cookie bits (must be ignored);
    /// variant: 0 well-formed, 1 REALM missing, 2 NONCE missing, 3 cookie demands
    /// PASSWORD-ALGORITHMS but the attribute is absent
    #[allow(clippy::too_many_arguments)]
    pub fn challenge_variant(&mut self, rng: &mut Rng, txid: &Id, method: u16, algs: u8, anonymity: bool, cookie: bool, new_realm: bool, variant: u8) -> (Vec<u8>, LtServer) {
        self.seq += 1;
        // One realm in four is legal on the wire but not in OpaqueString form (NO-BREAK SPACE, which
        // enforcement maps to U+0020): the client must echo it verbatim and derive its key from the
        // enforced form (RFC 8489 9.2.2; lt_key applies the mapping).  Such realms are not combined
        // with user-name anonymity here (USERHASH over a mapped realm is left unexplored, DESIGN 9).
        let realm = match (&self.lt, new_realm) {
            (Some(lt), false) if !anonymity || !lt.realm.contains('\u{a0}') => lt.realm.clone(),
            _ if !anonymity && rng.chance(1, 4) => format!("realm{}\u{c9}\u{a0}x.example.org", self.seq),
            _ => format!("realm{}.example.org", self.seq),
        };
        // algs: 0 none, 1 [MD5], 2 [SHA256], 3 [MD5, SHA256], 4 [SHA256, MD5]
        let list: Option<Vec<(u16, Vec<u8>)>> = match algs {
            0 => None,
            1 => Some(vec![(1, vec![])]),
            2 => Some(vec![(2, vec![])]),
            3 => Some(vec![(1, vec![]), (2, vec![])]),
            4 => Some(vec![(2, vec![]), (1, vec![])]),
            // no supported algorithm at all
            5 => Some(vec![(3, vec![]), (0x7FFF, vec![1, 2])]),
            // unsupported entries around a supported one
            6 => Some(vec![(3, vec![9]), (1, vec![]), (0, vec![])]),
            _ => Some(vec![(0x0100, vec![1, 2, 3, 4, 5]), (2, vec![])]),
        };
        let rest = format!("n{}x{}", self.seq, rng.below(1000));
        let nonce = if cookie || list.is_some() || anonymity {
            let unassigned = if rng.chance(1, 4) { rng.next_u32() | 1 << rng.below(22) } else { 0 };
            cookie_nonce_bits(list.is_some(), anonymity, unassigned, &rest)
        } else {
            rest
        };
        let mut extra = Vec::new();
        if variant != 1 {
            extra.push((wire::T_REALM, realm.as_bytes().to_vec()));
        }
        if variant != 2 {
            extra.push((wire::T_NONCE, nonce.as_bytes().to_vec()));
        }
        if variant == 6 {
            // a repeated NONCE whose cookie bits say the opposite of the first one: RFC 8489 14 -
            // only the first occurrence of an attribute counts, the rest is ignored by the receiver
            let dup = cookie_nonce_bits(list.is_none(), !anonymity, 0, &format!("dup{}", self.seq));
            extra.push((wire::T_NONCE, dup.as_bytes().to_vec()));
        }
        if let Some(l) = &list {
            if variant != 3 {
                extra.push((wire::T_PASSWORD_ALGORITHMS, algs_value(l)));
            }
        }
        // the library prefers SHA-256 when both are offered; either choice is legal, the
        // responder learns the real choice from the next request (see observe_request)
        let key_alg = match &list {
            None => 1,
            Some(l) if l.iter().any(|a| a.0 == 2) => 2,
            Some(_) => 1,
        };
        let state = LtServer { realm, nonce, algs: list, key_alg, anonymity, counter: self.seq };
        // variants 4 / 5: a 401 inside an established session that carries an integrity
        // attribute (4: under a wrong key, 5: valid under the CURRENT key)
        let (integ, key) = match (variant, &self.lt) {
            (4, Some(lt)) => (if lt.algs.is_some() { Integ::ShaWrongKey } else { Integ::MiWrongKey }, lt_key(&self.cfg.user, &lt.realm, &self.cfg.password, lt.key_alg)),
            (5, Some(_)) => self.good_auth(false),
            _ => (Integ::None, vec![]),
        };
        let bytes = craft(&Reply {
            class: 3,
            method,
            txid: *txid,
            error_code: Some((401, "Unauthenticated".into())),
            extra,
            integ,
            key,
            fp: self.fp(),
        });
        (bytes, state)
    }

    /// 438 with a fresh nonce (authenticated with the current key when `with_integrity`)
    /// 438 whose integrity attribute fails verification (must be ignored, nonce unchanged)
    pub fn stale_bad_integrity(&mut self, txid: &Id, method: u16) -> Option<Vec<u8>> {
        let lt = self.lt.clone()?;
        self.seq += 1;
        let nonce = format!("forged-stale{}", self.seq);
        let extra = vec![(wire::T_REALM, lt.realm.as_bytes().to_vec()), (wire::T_NONCE, nonce.as_bytes().to_vec())];
        let key = lt_key(&self.cfg.user, &lt.realm, &self.cfg.password, lt.key_alg);
        Some(craft(&Reply {
            class: 3,
            method,
            txid: *txid,
            error_code: Some((438, "Stale Nonce".into())),
            extra,
            integ: if lt.algs.is_some() { Integ::ShaWrongKey } else { Integ::MiWrongKey },
            key,
            fp: self.fp(),
        }))
    }

    /// 438 that authenticates under the current key but carries no NONCE: the client refuses it
    /// (nothing to switch to), and refusing it must change nothing (seeded change C17-A7)
    pub fn stale_no_nonce(&mut self, txid: &Id, method: u16) -> Option<Vec<u8>> {
        let lt = self.lt.clone()?;
        self.seq += 1;
        let extra = vec![(wire::T_REALM, lt.realm.as_bytes().to_vec())];
        let (integ, key) = self.good_auth(false);
        Some(craft(&Reply { class: 3, method, txid: *txid, error_code: Some((438, "Stale Nonce".into())), extra, integ, key, fp: self.fp() }))
    }

    pub fn stale(&mut self, txid: &Id, method: u16, with_integrity: bool) -> Option<(Vec<u8>, String)> {
        let lt = self.lt.clone()?;
        self.seq += 1;
        let nonce = if lt.algs.is_some() || lt.anonymity {
            let unassigned = if self.seq % 4 == 0 { 0x0015_5555 ^ self.seq } else { 0 };
            cookie_nonce_bits(lt.algs.is_some(), lt.anonymity, unassigned, &format!("stale{}", self.seq))
        } else {
            format!("stale{}", self.seq)
        };
        let mut extra = vec![(wire::T_REALM, lt.realm.as_bytes().to_vec()), (wire::T_NONCE, nonce.as_bytes().to_vec())];
        if let Some(l) = &lt.algs {
            extra.push((wire::T_PASSWORD_ALGORITHMS, algs_value(l)));
        }
        let (integ, key) = self.good_auth(false);
        let bytes = craft(&Reply {
            class: 3,
            method,
            txid: *txid,
            error_code: Some((438, "Stale Nonce".into())),
            extra,
            integ: if with_integrity { integ } else { Integ::None },
            key,
            fp: self.fp(),
        });
        Some((bytes, nonce))
    }

    /// learn the key-derivation algorithm the client chose from its request
    pub fn observe_request(&mut self, bytes: &[u8]) {
        if let (Some(lt), Ok(m)) = (self.lt.as_mut(), wire::parse(bytes)) {
            if let Some(pa) = m.find(wire::T_PASSWORD_ALGORITHM) {
                if pa.value.len() >= 2 {
                    let alg = u16::from_be_bytes([pa.value[0], pa.value[1]]);
                    if alg == 1 || alg == 2 {
                        lt.key_alg = alg;
                    }
                }
            }
        }
    }

    /// indication towards the client
    pub fn indication(&self, rng: &mut Rng, integ: Integ, fp: Fp) -> Vec<u8> {
        let mut txid = [0u8; 12];
        rng.fill(&mut txid);
        let key = self.cfg.password.as_bytes().to_vec();
        craft(&Reply { class: 1, method: 1 + rng.below(9) as u16, txid, error_code: None, extra: vec![(wire::T_SOFTWARE, b"ind".to_vec())], integ, key, fp })
    }
}
