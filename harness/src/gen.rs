//! Generators of logical messages and attribute values: size classes that straddle every
//! documented limit, several alphabets, both address families.

use crate::refstun::wire::{self, KeySpec, LAttr, LMsg};
use crate::rng::Rng;
use std::net::SocketAddr;

/// Alphabets. `Stable` = strings on which PRECIS OpaqueString preparation/enforcement is
/// the identity (ASCII printable, NFC-stable letters, no non-ASCII spaces, no default
/// ignorables), so reference key derivation needs no PRECIS implementation.
#[derive(Clone, Copy, Debug, PartialEq, Eq)]
pub enum Alpha {
    Ascii,
    Latin1,
    Bmp,
    Astral,
    Mixed,
}

fn ch(rng: &mut Rng, a: Alpha) -> char {
    match a {
        Alpha::Ascii => (0x21 + rng.below(0x7E - 0x21 + 1) as u8) as char,
        Alpha::Latin1 => {
            // U+00C0..U+00FF letters (2-byte UTF-8), skip U+00D7 and U+00F7 (symbols, still fine)
            char::from_u32(0xC0 + rng.below(0x40) as u32).unwrap()
        }
        Alpha::Bmp => {
            if rng.bool() {
                char::from_u32(0x4E00 + rng.below(0x200) as u32).unwrap() // CJK, 3-byte
            } else {
                char::from_u32(0x0430 + rng.below(0x20) as u32).unwrap() // Cyrillic lower, 2-byte
            }
        }
        Alpha::Astral => char::from_u32(0x1F600 + rng.below(0x40) as u32).unwrap(), // 4-byte
        Alpha::Mixed => {
            let a = *rng.pick(&[Alpha::Ascii, Alpha::Ascii, Alpha::Latin1, Alpha::Bmp, Alpha::Astral]);
            ch(rng, a)
        }
    }
}

pub fn pick_alpha(rng: &mut Rng) -> Alpha {
    *rng.pick(&[
        Alpha::Ascii,
        Alpha::Ascii,
        Alpha::Latin1,
        Alpha::Bmp,
        Alpha::Astral,
        Alpha::Mixed,
        Alpha::Mixed,
    ])
}

/// A byte length drawn from classes around 0, small values, every residue mod 4, and
/// the limit `max`.
pub fn size_class(rng: &mut Rng, max: usize) -> usize {
    let c = rng.below(10);
    let n = match c {
        0 => rng.below(6) as usize,                       // 0..5
        1 => max.saturating_sub(rng.below(4) as usize),   // max-3..max
        2 => max,                                         // exactly the limit
        3 => 6 + rng.below(27) as usize,                  // 6..32
        4 => 32 + rng.below(100) as usize,                // 32..131
        5 => rng.below(max as u64 + 1) as usize,          // anywhere
        6 => (max / 2).saturating_sub(2) + rng.below(5) as usize,
        _ => rng.below(20) as usize,                      // mostly short
    };
    n.min(max)
}

/// String over `a` with exactly `bytes` UTF-8 bytes when possible (filled with ASCII to
/// hit the exact byte count).
pub fn string_bytes(rng: &mut Rng, a: Alpha, bytes: usize) -> String {
    let mut s = String::with_capacity(bytes);
    while s.len() < bytes {
        let c = ch(rng, a);
        if s.len() + c.len_utf8() <= bytes {
            s.push(c);
        } else {
            // fill remainder with ASCII so that the byte count is exact
            s.push(ch(rng, Alpha::Ascii));
        }
    }
    s
}

/// PRECIS-stable string (usable as user name / password / realm in key derivation).
pub fn stable_string(rng: &mut Rng, min: usize, max: usize) -> String {
    let a = pick_alpha(rng);
    let n = min + size_class(rng, max - min);
    let s = string_bytes(rng, a, n);
    debug_assert!(s.len() >= min && s.len() <= max);
    s
}

/// Candidate text for quoted-string attributes (REALM, NONCE): qdtext, quoted pairs,
/// LWS.  The library constructor has the last word on legality; see `realm`/`nonce`.
pub fn quoted_candidate(rng: &mut Rng, bytes: usize, spicy: bool) -> String {
    let mut s = String::new();
    while s.len() < bytes {
        let r = rng.below(if spicy { 20 } else { 12 });
        match r {
            0..=7 => {
                // qdtext ASCII: 0x21, 0x23-0x5B, 0x5D-0x7E
                let c = loop {
                    let c = 0x21 + rng.below(0x5E) as u8;
                    if c != b'"' && c != b'\\' {
                        break c;
                    }
                };
                s.push(c as char);
            }
            8..=9 | 11 => {
                // The grammar crate matches UTF8-NONASCII on code points as if they were
                // bytes: a lead U+00C0..U+00FD followed by 1..5 code points U+0080..U+00BF.
                // These are the only non-ASCII texts REALM/NONCE constructors admit.
                let (lead_lo, lead_n, conts) = match rng.below(6) {
                    0..=2 => (0xC0u32, 0x20u64, 1),
                    3..=4 => (0xE0, 0x10, 2),
                    _ => (0xF0, 0x08, 3),
                };
                s.push(char::from_u32(lead_lo + rng.below(lead_n) as u32).unwrap());
                for _ in 0..conts {
                    s.push(char::from_u32(0x80 + rng.below(0x40) as u32).unwrap());
                }
            }
            10 => s.push(' '),
            12..=14 => {
                // quoted-pair
                s.push('\\');
                let c = *rng.pick(&[b'"', b'\\', b'a', b' ', b'0', 0x7F, 0x01, b'\t']);
                s.push(c as char);
            }
            15 => s.push('\t'),
            16 => s.push_str("\r\n "),
            17 => s.push('"'),
            _ => s.push(' '),
        }
    }
    while s.len() > bytes {
        s.pop();
    }
    s
}

pub fn txid(rng: &mut Rng) -> [u8; 12] {
    let mut t = [0u8; 12];
    match rng.below(20) {
        0 => {}
        1 => t = [0xFF; 12],
        _ => rng.fill(&mut t),
    }
    t
}

pub fn sockaddr(rng: &mut Rng) -> SocketAddr {
    let port = match rng.below(8) {
        0 => 0,
        1 => 65535,
        2 => 0x2112,
        _ => rng.next_u32() as u16,
    };
    if rng.bool() {
        let b = match rng.below(8) {
            0 => [0, 0, 0, 0],
            1 => [255, 255, 255, 255],
            2 => [0x21, 0x12, 0xA4, 0x42],
            _ => {
                let x = rng.next_u32().to_be_bytes();
                [x[0], x[1], x[2], x[3]]
            }
        };
        wire::v4(b[0], b[1], b[2], b[3], port)
    } else {
        let mut o = [0u8; 16];
        match rng.below(12) {
            0 => {}
            1 => o = [0xFF; 16],
            // structured forms an implementation might be tempted to normalise:
            // IPv4-mapped ::ffff:a.b.c.d, IPv4-compatible ::a.b.c.d, loopback, link-local, 6to4
            2 | 3 => {
                o[10] = 0xFF;
                o[11] = 0xFF;
                let x = rng.next_u32().to_be_bytes();
                o[12..].copy_from_slice(&x);
            }
            4 => {
                let x = rng.next_u32().to_be_bytes();
                o[12..].copy_from_slice(&x);
            }
            5 => o[15] = 1,
            6 => {
                rng.fill(&mut o);
                o[0] = 0xFE;
                o[1] = 0x80;
            }
            7 => {
                rng.fill(&mut o);
                o[0] = 0x20;
                o[1] = 0x02;
            }
            _ => rng.fill(&mut o),
        }
        wire::v6(o, port)
    }
}

pub fn error_code_num(rng: &mut Rng) -> u16 {
    match rng.below(6) {
        0 => 300,
        1 => 699,
        2 => *rng.pick(&[400u16, 401, 420, 438, 500, 487, 599, 600]),
        _ => 300 + rng.below(400) as u16,
    }
}

pub fn alg_id(rng: &mut Rng) -> u16 {
    match rng.below(6) {
        0 => 0,
        1 | 2 => 1,
        3 | 4 => 2,
        _ => *rng.pick(&[3u16, 4, 0x00FF, 0x0100, 0x7FFF, 0x8000, 0xFFFF]),
    }
}

pub fn alg_params(rng: &mut Rng) -> Vec<u8> {
    let n = match rng.below(8) {
        0..=3 => 0,
        4 => 1 + rng.below(4) as usize,
        5 => 4 + rng.below(5) as usize,
        6 => rng.below(40) as usize,
        _ => rng.below(300) as usize,
    };
    rng.bytes(n)
}

pub fn blob(rng: &mut Rng, max: usize) -> Vec<u8> {
    let n = size_class(rng, max);
    rng.bytes(n)
}

/// Number of non-tail attribute kinds (indices 0..35 of `wire::KIND_NAMES`).
pub const ORDINARY_KINDS: usize = 35;

/// Context the attribute generator needs to keep values legal.
pub struct GenCfg {
    /// upper bound for DATA / PADDING / MOBILITY-TICKET value bytes
    pub max_blob: usize,
}

impl Default for GenCfg {
    fn default() -> Self {
        GenCfg { max_blob: 1000 }
    }
}

/// REALM stored value: candidate text run through the library constructor (which trims
/// LWS/quotes and applies OpaqueString); the logical value is what the object holds.
pub fn realm_value(rng: &mut Rng) -> LAttr {
    for _ in 0..4 {
        let n = size_class(rng, 509);
        let spicy = rng.chance(1, 3);
        let cand = quoted_candidate(rng, n, spicy);
        if let Ok(Ok(r)) = crate::ctx::guarded(|| stun_rs::attributes::stun::Realm::new(&cand)) {
            return LAttr::Realm { text: r.as_str().to_string(), source: cand };
        }
    }
    let n = 1 + size_class(rng, 508);
    LAttr::realm(&string_bytes(rng, Alpha::Ascii, n).replace(['"', '\\'], "x"))
}

pub fn nonce_value(rng: &mut Rng) -> LAttr {
    for _ in 0..4 {
        let n = size_class(rng, 509);
        let cand = if rng.chance(1, 4) {
            // nonce-cookie shaped values
            let mut s = String::from("obMatJos2");
            s.push_str(&quoted_candidate(rng, n.min(500), false));
            s
        } else {
            let spicy = rng.chance(1, 3);
            quoted_candidate(rng, n, spicy)
        };
        if let Ok(Ok(r)) = crate::ctx::guarded(|| stun_rs::attributes::stun::Nonce::new(&cand)) {
            return LAttr::Nonce { text: r.as_str().to_string(), source: cand };
        }
    }
    let n = size_class(rng, 509);
    LAttr::nonce(&string_bytes(rng, Alpha::Ascii, n).replace(['"', '\\'], "x"))
}

pub fn attr_of_kind(rng: &mut Rng, kind: usize, cfg: &GenCfg) -> LAttr {
    use LAttr::*;
    match kind {
        0 => MappedAddress(sockaddr(rng)),
        1 => AlternateServer(sockaddr(rng)),
        2 => XorMappedAddress(sockaddr(rng)),
        3 => {
            let a = pick_alpha(rng);
            let n = size_class(rng, 509);
            ErrorCode { code: error_code_num(rng), reason: string_bytes(rng, a, n) }
        }
        4 => UserName(stable_string(rng, 1, 508)),
        5 => realm_value(rng),
        6 => nonce_value(rng),
        7 => {
            let a = pick_alpha(rng);
            let n = size_class(rng, 509);
            Software(string_bytes(rng, a, n))
        }
        8 => PasswordAlgorithm { alg: alg_id(rng), params: alg_params(rng) },
        9 => {
            let n = match rng.below(6) {
                0 => 0,
                1 => 1,
                2 => 2,
                _ => rng.below(6) as usize,
            };
            PasswordAlgorithms((0..n).map(|_| (alg_id(rng), alg_params(rng))).collect())
        }
        10 => {
            // distinct values: the library's constructor de-duplicates
            let n = rng.below(9) as usize;
            let mut v: Vec<u16> = Vec::new();
            while v.len() < n {
                let t = match rng.below(4) {
                    0 => *rng.pick(&wire::KNOWN_TYPES),
                    _ => rng.next_u32() as u16,
                };
                if !v.contains(&t) {
                    v.push(t);
                }
            }
            UnknownAttributes(v)
        }
        11 => UserHash { user: stable_string(rng, 1, 100), realm: stable_string(rng, 1, 100) },
        12 => IceControlled(edge_u64(rng)),
        13 => IceControlling(edge_u64(rng)),
        14 => Priority(edge_u32(rng)),
        15 => UseCandidate,
        16 => {
            let r = rng.next_u32() as u16;
            ChannelNumber(*rng.pick(&[0u16, 0x3FFF, 0x4000, 0x7FFF, 0xFFFF, r]))
        }
        17 => LifeTime(edge_u32(rng)),
        18 => XorPeerAddress(sockaddr(rng)),
        19 => XorRelayedAddress(sockaddr(rng)),
        20 => Data(blob(rng, cfg.max_blob)),
        21 => RequestedAddressFamily(1 + rng.below(2) as u8),
        22 => EvenPort(rng.bool()),
        23 => DontFragment,
        24 => RequestedTransport(if rng.chance(3, 4) { 17 } else { 0 }),
        25 => AdditionalAddressFamily(1 + rng.below(2) as u8),
        26 => {
            let mut t = [0u8; 8];
            rng.fill(&mut t);
            ReservationToken(t)
        }
        27 => {
            let a = pick_alpha(rng);
            let n = size_class(rng, 509);
            AddressErrorCode {
                family: 1 + rng.below(2) as u8,
                code: error_code_num(rng),
                reason: string_bytes(rng, a, n),
            }
        }
        28 => {
            let mut d = [0u8; 4];
            rng.fill(&mut d);
            let (rt, rc) = (rng.below(128) as u8, rng.below(512) as u16);
            Icmp {
                typ: *rng.pick(&[0u8, 1, 3, 11, 64, 126, 127, rt]),
                code: *rng.pick(&[0u16, 1, 255, 256, 510, 511, rc]),
                data: d,
            }
        }
        29 => MobilityTicket(blob(rng, cfg.max_blob)),
        30 => ChangeRequest { ip: rng.bool(), port: rng.bool() },
        31 => OtherAddress(sockaddr(rng)),
        32 => {
            let a = pick_alpha(rng);
            let n = size_class(rng, cfg.max_blob);
            Padding(string_bytes(rng, a, n))
        }
        33 => ResponseOrigin(sockaddr(rng)),
        34 => {
            let r = rng.next_u32() as u16;
            ResponsePort(*rng.pick(&[0u16, 1, 1023, 1024, 65535, r]))
        }
        _ => unreachable!(),
    }
}

fn edge_u32(rng: &mut Rng) -> u32 {
    match rng.below(6) {
        0 => 0,
        1 => u32::MAX,
        2 => 1,
        3 => 0x8000_0000,
        _ => rng.next_u32(),
    }
}

fn edge_u64(rng: &mut Rng) -> u64 {
    match rng.below(6) {
        0 => 0,
        1 => u64::MAX,
        2 => 1,
        3 => 0x8000_0000_0000_0000,
        _ => rng.next_u64(),
    }
}

pub fn method(rng: &mut Rng) -> u16 {
    match rng.below(4) {
        0 => *rng.pick(&[0u16, 1, 2, 3, 4, 6, 7, 8, 9, 0xFF, 0x100, 0x7F, 0x80, 0xFFF]),
        _ => rng.below(0x1000) as u16,
    }
}

pub fn key_spec(rng: &mut Rng) -> KeySpec {
    if rng.bool() {
        let max = if rng.chance(1, 8) { 130 } else { 64 };
        KeySpec::ShortTerm { password: stable_string(rng, 1, max) }
    } else {
        KeySpec::LongTerm {
            user: stable_string(rng, 1, 64),
            realm: stable_string(rng, 1, 64),
            password: stable_string(rng, 1, 64),
            alg: 1 + rng.below(2) as u16,
        }
    }
}

/// All 8 legal tails (subsets of [MI, SHA256, FP] in that order).
pub fn tail(bits: u8) -> Vec<LAttr> {
    let mut t = Vec::new();
    if bits & 1 != 0 {
        t.push(LAttr::MessageIntegrity);
    }
    if bits & 2 != 0 {
        t.push(LAttr::MessageIntegritySha256);
    }
    if bits & 4 != 0 {
        t.push(LAttr::Fingerprint);
    }
    t
}

/// A legal message: ordinary attributes then one of the 8 tails.
pub fn message(rng: &mut Rng, max_attrs: usize, cfg: &GenCfg) -> LMsg {
    let n = match rng.below(8) {
        0 => 0,
        1 => 1,
        _ => rng.below(max_attrs as u64 + 1) as usize,
    };
    let mut attrs: Vec<LAttr> = (0..n)
        .map(|_| {
            let k = rng.usize_below(ORDINARY_KINDS);
            attr_of_kind(rng, k, cfg)
        })
        .collect();
    let tb = rng.below(8) as u8;
    attrs.extend(tail(tb));
    let key = if tb & 3 != 0 { Some(key_spec(rng)) } else { None };
    let mut m = LMsg { method: method(rng), class: rng.below(4) as u8, txid: txid(rng), attrs, key };
    xor_wire_structured(rng, &mut m);
    m
}

/// Sometimes gives an XOR-ed IPv6 address the value whose WIRE form (address xor magic cookie
/// and transaction id) is IPv4-mapped / all-zero, so that a codec which interprets the bytes
/// before un-XOR-ing them shows.
pub fn xor_wire_structured(rng: &mut Rng, m: &mut LMsg) {
    let mut mask = [0u8; 16];
    mask[..4].copy_from_slice(&wire::COOKIE.to_be_bytes());
    mask[4..].copy_from_slice(&m.txid);
    for a in m.attrs.iter_mut() {
        if let LAttr::XorMappedAddress(s) | LAttr::XorPeerAddress(s) | LAttr::XorRelayedAddress(s) = a {
            if s.is_ipv6() && rng.chance(1, 6) {
                let mut o = [0u8; 16];
                if rng.bool() {
                    o[10] = 0xFF;
                    o[11] = 0xFF;
                    let x = rng.next_u32().to_be_bytes();
                    o[12..].copy_from_slice(&x);
                }
                for i in 0..16 {
                    o[i] ^= mask[i];
                }
                *s = wire::v6(o, s.port());
            }
        }
    }
}

pub fn describe_attr(a: &LAttr) -> String {
    let s = format!("{:?}", a);
    if s.len() > 160 {
        let mut cut = 150;
        while !s.is_char_boundary(cut) {
            cut -= 1;
        }
        format!("{}...({} chars)", &s[..cut], s.len())
    } else {
        s
    }
}

pub fn describe_msg(m: &LMsg) -> String {
    let attrs: Vec<String> = m.attrs.iter().map(describe_attr).collect();
    format!(
        "method={:#05x} class={} txid={} key={:?} attrs=[{}]",
        m.method,
        m.class,
        crate::json::hex(&m.txid),
        m.key,
        attrs.join(", ")
    )
}

/// OpaqueString (RFC 8265) test strings beyond the stable alphabet: returns (raw, enforced)
/// where `enforced` is what OpaqueString enforcement must produce.  Only constructs whose
/// mapping is known exactly are generated: non-ASCII spaces (mapped to U+0020) and
/// base letter + one combining mark that has a precomposed Latin-1 form (NFC).
pub fn opaque_string_case(rng: &mut Rng, min: usize, max: usize) -> (String, String) {
    const SPACES: [char; 8] = ['\u{a0}', '\u{1680}', '\u{2000}', '\u{2003}', '\u{200a}', '\u{202f}', '\u{205f}', '\u{3000}'];
    // (base, mark, composed)
    const COMP: [(char, char, char); 14] = [
        ('a', '\u{301}', '\u{e1}'),
        ('e', '\u{301}', '\u{e9}'),
        ('i', '\u{301}', '\u{ed}'),
        ('o', '\u{301}', '\u{f3}'),
        ('u', '\u{301}', '\u{fa}'),
        ('a', '\u{300}', '\u{e0}'),
        ('e', '\u{300}', '\u{e8}'),
        ('o', '\u{302}', '\u{f4}'),
        ('n', '\u{303}', '\u{f1}'),
        ('A', '\u{308}', '\u{c4}'),
        ('u', '\u{308}', '\u{fc}'),
        ('c', '\u{327}', '\u{e7}'),
        ('E', '\u{301}', '\u{c9}'),
        ('O', '\u{303}', '\u{d5}'),
    ];
    // code points whose NFC form differs although no combining mark is involved (canonical
    // singletons, one composition exclusion): (raw, NFC)
    const SINGLE: [(char, &str); 7] = [
        ('\u{212b}', "\u{c5}"),
        ('\u{2126}', "\u{3a9}"),
        ('\u{212a}', "K"),
        ('\u{f900}', "\u{8c48}"),
        ('\u{1f71}', "\u{3ac}"),
        ('\u{1fbb}', "\u{386}"),
        ('\u{958}', "\u{915}\u{93c}"),
    ];
    let target = min + rng.below((max - min) as u64 + 1) as usize;
    let (mut raw, mut enf) = (String::new(), String::new());
    // which transformations this string exercises: all of them, or exactly one kind (so that a
    // shortcut keyed on "no space / no mark present" is reached as well)
    let mode = rng.below(5);
    while raw.len() < target.max(1) {
        let class = match mode {
            0 | 1 => rng.below(7),
            2 => *rng.pick(&[0, 3, 4, 5]),
            3 => *rng.pick(&[1, 3, 4, 5]),
            _ => *rng.pick(&[2, 3, 4]),
        };
        match class {
            2 => {
                let (c, n) = *rng.pick(&SINGLE);
                raw.push(c);
                enf.push_str(n);
            }
            0 => {
                let c = *rng.pick(&SPACES);
                raw.push(c);
                enf.push(' ');
            }
            1 => {
                let (b, m, c) = *rng.pick(&COMP);
                raw.push(b);
                raw.push(m);
                enf.push(c);
            }
            _ => {
                // stable character that does not combine with a preceding base: digits,
                // punctuation, upper-case consonants, CJK
                let c = *rng.pick(&['0', '7', '-', '_', '.', 'Z', 'K', 'x', '\u{4e2d}', '\u{0436}', '!', '#']);
                raw.push(c);
                enf.push(c);
            }
        }
    }
    (raw, enf)
}
