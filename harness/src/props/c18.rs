//! C18 Decoder options only filter or decorate.  Metamorphic oracle over one input under
//! all 16 option combinations plus the context-less decoder.

use super::{decode, decoder, opts_name, report_panic};
use crate::bridge;
use crate::ctx::Ctx;
use crate::gen::{self, GenCfg};
use crate::json::{hex_trunc, J};
use crate::mutate;
use crate::refstun::wire::{self, LAttr, LMsg, RngNoise, KNOWN_TYPES};
use crate::rng::{fnv64, Rng};
use stun_rs::{HMACKey, StunAttribute, StunMessage};

type Res = Result<(StunMessage, usize), String>;

fn render_attr(a: &StunAttribute, hide_unknown_data: bool) -> String {
    if hide_unknown_data {
        if let StunAttribute::Unknown(u) = a {
            return format!("Unknown({:#06x})", u.attribute_type().as_u16());
        }
    }
    format!("{:?}", a)
}

fn render_msg(m: &StunMessage, hide_unknown_data: bool) -> String {
    let attrs: Vec<String> = m.attributes().iter().map(|a| render_attr(a, hide_unknown_data)).collect();
    format!(
        "{:#x}/{:?}/{:?}/[{}]",
        m.method().as_u16(),
        m.class(),
        m.transaction_id(),
        attrs.join(", ")
    )
}

fn same_result(a: &Res, b: &Res, hide_unknown: bool) -> bool {
    match (a, b) {
        (Ok((ma, na)), Ok((mb, nb))) => na == nb && render_msg(ma, hide_unknown) == render_msg(mb, hide_unknown),
        (Err(ea), Err(eb)) => ea == eb,
        _ => false,
    }
}

fn res_desc(r: &Res) -> String {
    match r {
        Ok((m, n)) => {
            let s = render_msg(m, false);
            let s = if s.len() > 300 { format!("{}...", &s.chars().take(300).collect::<String>()) } else { s };
            format!("Ok(size {}, {})", n, s)
        }
        Err(e) => format!("Err({})", e),
    }
}

/// Insert unknown attribute types of every length mod 4 into a logical message.
fn with_unknowns(rng: &mut Rng, m: &mut LMsg) {
    let n = rng.below(3);
    for _ in 0..n {
        let typ = loop {
            let t = rng.next_u32() as u16;
            if !KNOWN_TYPES.contains(&t) {
                break t;
            }
        };
        let len = match rng.below(3) {
            0 => rng.below(8) as usize,
            1 => rng.below(64) as usize,
            _ => 4 * rng.below(8) as usize + rng.below(4) as usize,
        };
        let pos_max = m.attrs.iter().position(|a| a.is_tail()).unwrap_or(m.attrs.len());
        let at = if rng.chance(1, 6) { rng.usize_below(m.attrs.len() + 1) } else { rng.usize_below(pos_max + 1) };
        m.attrs.insert(at, LAttr::Unknown { typ, value: rng.bytes(len) });
    }
}

pub fn relations(ctx: &mut Ctx, bytes: &[u8], key: &HMACKey, origin: &str) {
    let mut res: Vec<Res> = Vec::with_capacity(17);
    let configs: Vec<Option<u8>> = std::iter::once(None).chain((0u8..16).map(Some)).collect();
    let w = |extra: &str| {
        J::obj()
            .set("origin", J::s(origin))
            .set("bytes", J::s(hex_trunc(bytes, 500)))
            .set("detail", J::s(extra))
    };
    for o in &configs {
        match decode(&decoder(*o, Some(key)), bytes) {
            Err(p) => {
                report_panic(ctx, "decode", &p, w(&opts_name(*o)));
                return;
            }
            Ok(r) => res.push(r),
        }
    }
    ctx.count("inputs");
    let at = |o: u8| &res[o as usize + 1];
    if at(0).is_ok() {
        ctx.count("inputs.decodable");
    }
    // R4: no context == default context; key without validation == no key
    if !same_result(&res[0], at(0), false) {
        ctx.violation(
            "R4:no-context-differs-from-default-context",
            format!("no-context: {} ; default context: {}", res_desc(&res[0]), res_desc(at(0))),
            w(""),
        );
    }
    for base in [0u8, 4, 8, 12] {
        if !same_result(at(base), at(base | 1), false) {
            ctx.violation(
                "R4:key-without-validation-changes-result",
                format!("{}: {} ; {}: {}", opts_name(Some(base)), res_desc(at(base)), opts_name(Some(base | 1)), res_desc(at(base | 1))),
                w(""),
            );
        }
    }
    // R1: validation on Ok(m) => validation off Ok(m') with m == m'
    for o in 0u8..16 {
        if o & 2 != 0 {
            if let Ok((mv, nv)) = at(o) {
                ctx.count("R1.validated-ok");
                match at(o & !2) {
                    Ok((m, n)) if n == nv && render_msg(m, false) == render_msg(mv, false) => {}
                    other => ctx.violation(
                        "R1:validation-changes-message",
                        format!(
                            "{} -> Ok({}) but {} -> {}",
                            opts_name(Some(o)),
                            render_msg(mv, false),
                            opts_name(Some(o & !2)),
                            res_desc(other)
                        ),
                        w(""),
                    ),
                }
            }
        }
    }
    // R2: unknown data on vs off: same success, same attributes; the Unknown ones carry
    // exactly the wire value bytes
    let raw = wire::parse(bytes).ok();
    for o in 0u8..16 {
        if o & 4 != 0 {
            let with = at(o);
            let without = at(o & !4);
            if !same_result(with, without, true) {
                ctx.violation(
                    "R2:unknown-data-option-changes-result",
                    format!("{}: {} ; {}: {}", opts_name(Some(o)), res_desc(with), opts_name(Some(o & !4)), res_desc(without)),
                    w(""),
                );
                continue;
            }
            if let (Ok((mw, _)), Ok((mo, _))) = (with, without) {
                // without the option no Unknown carries data
                for a in mo.attributes() {
                    if let StunAttribute::Unknown(u) = a {
                        if u.attribute_data().is_some() {
                            // today's decoder drops the data then, but the statement only speaks of
                            // what keeping the data must yield: recorded, not judged
                            ctx.count("c18.suspicion.data-kept-without-option");
                        }
                    }
                }
                // with the option: exactly the raw value bytes (reference TLV walk)
                if let Some(raw) = raw.as_ref() {
                    let types: Vec<u16> = raw.attrs.iter().map(|a| a.typ).collect();
                    let keep: Vec<bool> = if o & 8 != 0 { vec![true; types.len()] } else { wire::admit(&types) };
                    let wire_attrs: Vec<&wire::RawAttr> =
                        raw.attrs.iter().zip(keep.iter()).filter(|(_, k)| **k).map(|(a, _)| a).collect();
                    if wire_attrs.len() == mw.attributes().len() {
                        for (a, ra) in mw.attributes().iter().zip(wire_attrs.iter()) {
                            if let StunAttribute::Unknown(u) = a {
                                ctx.count("R2.unknown-values-compared");
                                if u.attribute_type().as_u16() != ra.typ || u.attribute_data() != Some(ra.value.as_slice()) {
                                    ctx.violation(
                                        "R2:unknown-data-not-raw-value",
                                        format!(
                                            "Unknown {:#06x} carries {:?}, wire value is {:?}",
                                            ra.typ,
                                            u.attribute_data().map(crate::json::hex),
                                            crate::json::hex(&ra.value)
                                        ),
                                        w(&opts_name(Some(o))),
                                    );
                                }
                            }
                        }
                    } else {
                        // attribute count != admitted wire attributes: C09's business
                        ctx.count("R2.count-mismatch-skipped");
                    }
                }
            }
        }
    }
    // R3: not_ignore yields every wire attribute in order; default result is a subsequence
    for o in [0u8, 1, 4, 5] {
        if let (Ok((sub, _)), Ok((all, _))) = (at(o), at(o | 8)) {
            ctx.count("R3.compared");
            let alls: Vec<String> = all.attributes().iter().map(|a| render_attr(a, false)).collect();
            let subs: Vec<String> = sub.attributes().iter().map(|a| render_attr(a, false)).collect();
            let mut i = 0;
            for s in &subs {
                while i < alls.len() && &alls[i] != s {
                    i += 1;
                }
                if i == alls.len() {
                    ctx.violation(
                        "R3:default-not-subsequence-of-not-ignore",
                        format!("default: [{}] ; not_ignore: [{}]", subs.join(", "), alls.join(", ")),
                        w(&opts_name(Some(o))),
                    );
                    break;
                }
                i += 1;
            }
            if let Some(raw) = raw.as_ref() {
                let ok = raw.attrs.len() == all.attributes().len()
                    && raw.attrs.iter().zip(all.attributes()).all(|(r, a)| r.typ == a.attribute_type().as_u16());
                if !ok {
                    ctx.violation(
                        "R3:not-ignore-misses-wire-attributes",
                        format!(
                            "wire types {:?} ; not_ignore types {:?}",
                            raw.attrs.iter().map(|a| a.typ).collect::<Vec<_>>(),
                            all.attributes().iter().map(|a| a.attribute_type().as_u16()).collect::<Vec<_>>()
                        ),
                        w(&opts_name(Some(o | 8))),
                    );
                }
            }
        } else if at(o).is_ok() != at(o | 8).is_ok() {
            // one succeeded, the other did not: the statement compares only when both succeed
            ctx.count("R3.one-sided-skipped");
        }
    }
}

pub fn run(ctx: &mut Ctx) {
    let cfg = GenCfg { max_blob: 200 };
    let key_spec = wire::KeySpec::ShortTerm { password: "c18-password".into() };
    let key = bridge::lib_key(&key_spec).expect("key");
    let donors: Vec<Vec<u8>> = vec![
        stun_vectors::SAMPLE_REQUEST.to_vec(),
        stun_vectors::SAMPLE_IPV4_RESPONSE.to_vec(),
        stun_vectors::SAMPLE_IPV6_RESPONSE.to_vec(),
        stun_vectors::SAMPLE_REQUEST_LONG_TERM_AUTH.to_vec(),
        stun_vectors::SAMPLE_REQUEST_LONG_TERM_AUTH_SHA256.to_vec(),
    ];

    let n = ctx.n(60_000, 6_000_000);
    ctx.cases("generated", n, |ctx, case, rng| {
        let mut m = gen::message(rng, 8, &cfg);
        if m.key.is_some() {
            m.key = Some(key_spec.clone());
        }
        with_unknowns(rng, &mut m);
        let valid = m.attrs.iter().all(|a| match a {
            LAttr::Realm { text, .. } | LAttr::Nonce { text, .. } => wire::valid_quoted_content(text),
            _ => true,
        });
        if !valid {
            return;
        }
        let bytes = wire::build(&m, &mut RngNoise(rng));
        relations(ctx, &bytes, &key, "generated");
        if ctx.want_sample() && case % 503 == 1 {
            ctx.sample(J::obj().set("origin", J::s("generated")).set("message", J::s(gen::describe_msg(&m))).set("bytes", J::s(hex_trunc(&bytes, 120))));
        }
        ctx.eval(if m.attrs.is_empty() { None } else { Some(fnv64(&bytes)) });
        // mutated variants of the same message
        for _ in 0..2 {
            let (mb, classes) = mutate::mutate(rng, &bytes, &donors);
            for c in &classes {
                ctx.count(&format!("mutation.{}", mutate::CLASSES[*c]));
            }
            relations(ctx, &mb, &key, "mutated");
            ctx.eval(Some(fnv64(&mb)));
        }
    });

    // RFC vectors and their mutations
    let n = ctx.n(10_000, 1_000_000);
    ctx.cases("vectors", n, |ctx, case, rng| {
        let base = &donors[(case % donors.len() as u64) as usize];
        let vkey = HMACKey::new_short_term("VOkJxbRl1RmTxUk/WvJxBt").unwrap();
        if case < donors.len() as u64 {
            relations(ctx, base, &vkey, "rfc-vector");
        }
        let (mb, _) = mutate::mutate(rng, base, &donors);
        relations(ctx, &mb, &vkey, "mutated-vector");
        ctx.eval(Some(fnv64(&mb)));
    });
}
