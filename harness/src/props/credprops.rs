//! Credential-level client properties decided on simulated conversations:
//! C07 (short-term), C08 (long-term), C10 (FINGERPRINT: codec part + client enforcement),
//! C13 (every emitted packet well formed).  Monitors: `cred.rs`; workloads below.

use super::c01::witness;
use super::{decode, decoder, encode, report_panic};
use crate::bridge;
use crate::ctx::{guarded, Ctx};
use crate::gen::{self, GenCfg};
use crate::json::J;
use crate::refstun::wire::{self, LAttr, LMsg};
use crate::rng::{fnv64, Rng};
use crate::sim::{self, Mech, Sim};
use crate::walk::{gen_cfg, Profile, Walk};
use stun_rs::attributes::stun::Fingerprint;
use stun_rs::StunAttribute;

fn history_hash(sim: &Sim) -> u64 {
    let mut shape = String::new();
    for l in &sim.trace {
        let s: String = l.chars().filter(|c| !c.is_ascii_digit() && !"abcdef".contains(*c)).collect();
        shape.push_str(&s);
    }
    fnv64(shape.as_bytes()) ^ sim.nsteps as u64
}

fn sample_history(ctx: &mut Ctx, sim: &Sim, case: u64) {
    if ctx.want_sample() && case % 89 == 7 && sim.trace.len() > 8 {
        ctx.sample(
            J::obj()
                .set("config", J::s(sim.cfg.describe()))
                .set("steps", J::u(sim.nsteps))
                .set("history_excerpt", J::arr(sim.trace.iter().take(12).map(J::s))),
        );
    }
}

fn run_walk(ctx: &mut Ctx, rng: &mut Rng, cfg: sim::SimCfg, p: &Profile, prefix: &[(u8, u8, bool)]) -> Option<Sim> {
    let mut w = Walk::new(cfg, p, rng).ok()?;
    for (kind, algs, anon) in prefix {
        if w.sim.dead {
            break;
        }
        w.scripted_exchange(ctx, rng, *kind, *algs, *anon);
    }
    let n = rng.range(p.steps.0, p.steps.1);
    for _ in 0..n {
        if w.sim.dead || w.sim.now > crate::walk::TIME_CAP {
            break;
        }
        w.step(ctx, rng);
    }
    if w.sim.now <= crate::walk::TIME_CAP {
        w.drain(ctx, rng);
    }
    ctx.count_n("steps", w.sim.nsteps as u64);
    Some(w.sim)
}

pub fn run_c07(ctx: &mut Ctx) {
    let p = Profile {
        steps: (60, 180),
        max_concurrent: 3,
        fault_pm: 600,
        silence_pm: 120,
        w_probe: 16,
        w_deliver: 34,
        w_fire: 22,
        late_pm: 250,
        ..Profile::base(sim::M_C07)
    };
    let n = ctx.n(20_000, 2_000_000);
    ctx.cases("conversations", n, |ctx, case, rng| {
        let mech = Mech::ShortTerm(*rng.pick(&[None, None, Some(false), Some(true)]));
        let cfg = gen_cfg(rng, Some(mech), &[10]);
        ctx.count(if cfg.reliable.is_some() { "c07.reliable-clients" } else { "c07.unreliable-clients" });
        // a third of the applications hand over attribute lists that already contain
        // credential / integrity attributes (cloned templates): they must be overridden
        let mut cfg = cfg;
        let mut p = Profile { rich_app: case % 3 == 0, ..p.clone() };
        if p.rich_app {
            ctx.count("c07.clients-with-prepopulated-attribute-lists");
        }
        if case % 32 == 5 {
            // many requests in flight at once, most of them answered badly, on a client whose
            // outstanding-request limit was raised above the default (seeded change C07-A7: a bound on
            // the number of protection-violated markers)
            cfg.reliable = None;
            cfg.max_transactions = *rng.pick(&[16usize, 24]);
            p = Profile { steps: (120, 260), max_concurrent: cfg.max_transactions, fault_pm: 850, silence_pm: 60, w_send: 45, w_deliver: 30, w_fire: 18, w_probe: 2, ..p };
            ctx.count("c07.clients-with-raised-limit");
        }
        if let Some(sim) = run_walk(ctx, rng, cfg, &p, &[]) {
            if case % 32 == 5 {
                ctx.count_n("c07.raised-limit.requests", sim.txs.len() as u64);
            }
            sample_history(ctx, &sim, case);
            ctx.eval(Some(history_hash(&sim)));
        }
    });
    super::enumprops::short_term(ctx, sim::M_C07);
}

pub fn run_c08(ctx: &mut Ctx) {
    let p = Profile {
        steps: (10, 70),
        max_concurrent: 2,
        fault_pm: 350,
        silence_pm: 100,
        w_send: 26,
        w_deliver: 40,
        w_probe: 10,
        w_fire: 16,
        late_pm: 200,
        rich_app: true,
        ..Profile::base(sim::M_C08)
    };
    let n = ctx.n(20_000, 2_000_000);
    ctx.cases("conversations", n, |ctx, case, rng| {
        let cfg = gen_cfg(rng, Some(Mech::LongTerm), &[10]);
        // scripted prefixes reach the deep states often: 401 -> (good) -> (438) ...
        let algs = rng.below(5) as u8;
        let anon = rng.chance(1, 3);
        let prefix: Vec<(u8, u8, bool)> = match case % 6 {
            0 => vec![],
            1 => vec![(0, algs, anon)],
            2 => vec![(0, algs, anon), (1, 0, false)],
            3 => vec![(0, algs, anon), (1, 0, false), (2, 0, false)],
            4 => vec![(0, algs, anon), (2, 0, false)],
            _ => vec![(0, algs, anon), (1, 0, false), (0, rng.below(5) as u8, rng.bool()), (1, 0, false)],
        };
        if let Some(sim) = run_walk(ctx, rng, cfg, &p, &prefix) {
            sample_history(ctx, &sim, case);
            ctx.eval(Some(history_hash(&sim)));
        }
    });
    super::enumprops::long_term(ctx, sim::M_C08);
}

pub fn run_c13(ctx: &mut Ctx) {
    let p = Profile {
        steps: (30, 110),
        max_concurrent: 3,
        w_send: 34,
        w_indication: 14,
        w_deliver: 26,
        w_fire: 22,
        w_probe: 4,
        fault_pm: 150,
        silence_pm: 250,
        rich_app: true,
        ..Profile::base(sim::M_C13)
    };
    let n = ctx.n(15_000, 1_500_000);
    ctx.cases("histories", n, |ctx, case, rng| {
        let cfg = gen_cfg(rng, None, &[10]);
        let algs = rng.below(5) as u8;
        let anon = rng.chance(1, 3);
        let prefix: Vec<(u8, u8, bool)> = if cfg.mech == Mech::LongTerm {
            match case % 4 {
                0 => vec![],
                1 => vec![(0, algs, anon)],
                2 => vec![(0, algs, anon), (1, 0, false)],
                _ => vec![(0, algs, anon), (1, 0, false), (2, 0, false)],
            }
        } else if rng.bool() {
            vec![(1, 0, false)]
        } else {
            vec![]
        };
        ctx.count(&format!("c13.mech.{}", match cfg.mech {
            Mech::None => "none",
            Mech::ShortTerm(_) => "short-term",
            Mech::LongTerm => "long-term",
        }));
        if let Some(sim) = run_walk(ctx, rng, cfg, &p, &prefix) {
            sample_history(ctx, &sim, case);
            ctx.eval(Some(history_hash(&sim)));
        }
    });
    super::enumprops::short_term(ctx, sim::M_C13);
    super::enumprops::long_term(ctx, sim::M_C13);
}

// ---------------------------------------------------------------------------------------
// C10

/// Is `bytes` accepted as carrying a valid FINGERPRINT?  (validating decode that returns a
/// FINGERPRINT, or direct validate() on get_input_text())
fn fp_accepted(bytes: &[u8], key: Option<&stun_rs::HMACKey>) -> Result<(bool, bool), crate::ctx::PanicInfo> {
    let opts = if key.is_some() { Some(3u8) } else { Some(2u8) };
    let via_decoder = match decode(&decoder(opts, key), bytes)? {
        Ok((m, _)) => m.attributes().iter().any(|a| a.is_fingerprint()),
        Err(_) => false,
    };
    let via_validate = guarded(|| {
        let Ok((m, _)) = decoder(Some(0), None).decode(bytes) else { return false };
        for a in m.attributes() {
            if let StunAttribute::Fingerprint(f) = a {
                return match stun_rs::get_input_text::<Fingerprint>(bytes) {
                    Some(input) => f.validate(&input),
                    None => false,
                };
            }
        }
        false
    })?;
    Ok((via_decoder, via_validate))
}

fn c10_codec(ctx: &mut Ctx) {
    let cfg = GenCfg { max_blob: 48 };
    let n = ctx.n(5_000, 400_000);
    ctx.cases("codec-faults", n, |ctx, case, rng| {
        let nattrs = rng.below(4) as usize;
        let mut attrs: Vec<LAttr> = (0..nattrs)
            .map(|_| {
                let k = rng.usize_below(gen::ORDINARY_KINDS);
                gen::attr_of_kind(rng, k, &cfg)
            })
            .collect();
        // tails ending in FINGERPRINT: FP; MI+FP; SHA+FP; MI+SHA+FP
        let tb = [4u8, 5, 6, 7][(case % 4) as usize];
        attrs.extend(gen::tail(tb));
        let key_spec = if tb & 3 != 0 { Some(gen::key_spec(rng)) } else { None };
        let m = LMsg { method: gen::method(rng), class: rng.below(4) as u8, txid: gen::txid(rng), attrs, key: key_spec.clone() };
        if wire::encoded_attr_bytes(&m) > 240 {
            ctx.count("codec-faults.skipped-large");
            return;
        }
        let Ok(Ok(lib_msg)) = guarded(|| bridge::to_lib_msg(&m)) else { return };
        let key = key_spec.as_ref().and_then(|k| bridge::lib_key(k).ok());
        let need = 20 + wire::encoded_attr_bytes(&m);
        let bytes = match encode(&lib_msg, need, 0) {
            Ok(Ok((b, n))) => b[..n].to_vec(),
            Ok(Err(_)) => return,
            Err(p) => {
                report_panic(ctx, "encode", &p, witness(&m, None));
                return;
            }
        };
        // the value is the RFC's CRC
        let raw = match wire::parse(&bytes) {
            Ok(r) => r,
            Err(_) => return,
        };
        let fp = raw.attrs.last().unwrap();
        if fp.typ != wire::T_FINGERPRINT || fp.value != wire::fingerprint_value(&bytes, fp.offset).to_be_bytes() {
            ctx.violation("c10:encoded-fingerprint-not-rfc-crc", "FINGERPRINT value is not CRC-32(message up to it, length adjusted) xor 0x5354554e".into(), witness(&m, Some(&bytes)));
            return;
        }
        match fp_accepted(&bytes, key.as_ref()) {
            Ok((true, true)) => ctx.count("c10.untampered-accepted"),
            Ok((d, v)) => ctx.violation("c10:encoder-output-does-not-validate", format!("decoder={} validate={}", d, v), witness(&m, Some(&bytes))),
            Err(p) => report_panic(ctx, "validate", &p, witness(&m, Some(&bytes))),
        }
        // every single-bit fault and single-byte substitution classes at every offset
        for pos in 0..bytes.len() {
            let orig = bytes[pos];
            let mut subs: Vec<u8> = (0..8).map(|b| orig ^ (1 << b)).collect();
            subs.push(orig.wrapping_add(1));
            subs.push(orig.wrapping_sub(1));
            subs.push(!orig);
            for _ in 0..3 {
                subs.push(rng.next_u64() as u8);
            }
            for (k, v) in subs.iter().enumerate() {
                if *v == orig {
                    continue;
                }
                let mut t = bytes.clone();
                t[pos] = *v;
                match fp_accepted(&t, key.as_ref()) {
                    Err(p) => report_panic(ctx, "validate-tampered", &p, witness(&m, Some(&t))),
                    Ok((d, val)) => {
                        if d || val {
                            let region = if pos < 20 { "header" } else if pos >= fp.offset { "fingerprint-attribute" } else { "attributes" };
                            ctx.violation(
                                &format!("c10:corrupted-message-accepted:{}:{}", region, if d { "decoder" } else { "validate" }),
                                format!("byte {} changed {:#04x} -> {:#04x} ({}): still accepted as carrying a valid FINGERPRINT (decoder={}, validate={})", pos, orig, v, if k < 8 { "single bit" } else { "byte substitution" }, d, val),
                                witness(&m, Some(&t)),
                            );
                        }
                        ctx.count(if k < 8 { "c10.bit-faults-rejected" } else { "c10.byte-faults-rejected" });
                    }
                }
            }
        }
        if ctx.want_sample() && case % 211 == 3 {
            ctx.sample(witness(&m, Some(&bytes)).set("faults", J::s("all 8n single-bit flips + 6 byte substitutions per offset")));
        }
        ctx.eval(Some(fnv64(&bytes)));
    });
}

/// FINGERPRINT that is not the last attribute ("misplaced"): the encoder's value must still be
/// the CRC of the message up to it with the length field ending at it, that value validates, and
/// the value a sender gets by leaving the whole datagram's length in the header does not.
fn c10_misplaced(ctx: &mut Ctx) {
    let cfg = GenCfg { max_blob: 24 };
    let n = ctx.n(3_000, 200_000);
    ctx.cases("codec-misplaced", n, |ctx, case, rng| {
        let nattrs = rng.below(3) as usize;
        let mut attrs: Vec<LAttr> = (0..nattrs)
            .map(|_| {
                let k = rng.usize_below(gen::ORDINARY_KINDS);
                gen::attr_of_kind(rng, k, &cfg)
            })
            .collect();
        let tb = [4u8, 5, 6, 7][(case % 4) as usize];
        attrs.extend(gen::tail(tb));
        let first_fp = attrs.len() - 1;
        // what follows the FINGERPRINT: ordinary attributes and/or another FINGERPRINT
        let shape = rng.below(4);
        if shape != 1 {
            for _ in 0..1 + rng.below(2) {
                let k = rng.usize_below(gen::ORDINARY_KINDS);
                attrs.push(gen::attr_of_kind(rng, k, &cfg));
            }
        }
        if shape >= 1 && shape <= 2 {
            attrs.push(LAttr::Fingerprint);
        }
        let key_spec = if tb & 3 != 0 { Some(gen::key_spec(rng)) } else { None };
        let m = LMsg { method: gen::method(rng), class: rng.below(4) as u8, txid: gen::txid(rng), attrs, key: key_spec.clone() };
        let Ok(Ok(lib_msg)) = guarded(|| bridge::to_lib_msg(&m)) else { return };
        let need = 20 + wire::encoded_attr_bytes(&m);
        let bytes = match encode(&lib_msg, need, 0) {
            Ok(Ok((b, n))) => b[..n].to_vec(),
            Ok(Err(_)) => {
                ctx.count("codec-misplaced.encoder-refused");
                return;
            }
            Err(p) => {
                report_panic(ctx, "encode-misplaced", &p, witness(&m, None));
                return;
            }
        };
        let Ok(raw) = wire::parse(&bytes) else { return };
        if raw.attrs.len() != m.attrs.len() || raw.attrs[first_fp].typ != wire::T_FINGERPRINT {
            return;
        }
        let fp = &raw.attrs[first_fp];
        let good = wire::fingerprint_value(&bytes, fp.offset).to_be_bytes();
        if fp.value != good {
            ctx.violation("c10:encoded-misplaced-fingerprint-not-rfc-crc", "first FINGERPRINT (others follow it) is not CRC-32(message up to it, length ending at it) xor 0x5354554e".into(), witness(&m, Some(&bytes)));
            return;
        }
        let validate_first = |b: &[u8]| -> Result<Option<bool>, crate::ctx::PanicInfo> {
            let b = b.to_vec();
            guarded(move || {
                let Ok((dm, _)) = decoder(Some(0), None).decode(&b) else { return None };
                for a in dm.attributes() {
                    if let StunAttribute::Fingerprint(f) = a {
                        return stun_rs::get_input_text::<Fingerprint>(&b).map(|input| f.validate(&input));
                    }
                }
                None
            })
        };
        match validate_first(&bytes) {
            Ok(Some(true)) => ctx.count("c10.misplaced-rfc-value-validates"),
            Ok(other) => ctx.violation("c10:encoder-output-with-misplaced-fingerprint-does-not-validate", format!("get_input_text + validate on the encoder's own output: {:?}", other), witness(&m, Some(&bytes))),
            Err(p) => report_panic(ctx, "validate-misplaced", &p, witness(&m, Some(&bytes))),
        }
        // the value computed without adjusting the length field
        let whole = (crate::refstun::hash::crc32(&bytes[..fp.offset]) ^ 0x5354_554e).to_be_bytes();
        if whole != good {
            let mut t = bytes.clone();
            t[fp.offset + 4..fp.offset + 8].copy_from_slice(&whole);
            match fp_accepted(&t, None) {
                Ok((false, false)) => ctx.count("c10.misplaced-whole-length-crc-rejected"),
                Ok((d, v)) => ctx.violation(
                    &format!("c10:fingerprint-over-unadjusted-length-accepted:{}", if d { "decoder" } else { "validate" }),
                    format!("a FINGERPRINT followed by other attributes and computed with the whole datagram's length is accepted (decoder={}, validate={})", d, v),
                    witness(&m, Some(&t)),
                ),
                Err(p) => report_panic(ctx, "validate-misplaced-whole", &p, witness(&m, Some(&t))),
            }
        }
        ctx.eval(Some(fnv64(&bytes)));
    });
}

pub fn run_c10(ctx: &mut Ctx) {
    c10_codec(ctx);
    c10_misplaced(ctx);
    let p = Profile {
        steps: (40, 140),
        max_concurrent: 3,
        fault_pm: 550,
        silence_pm: 150,
        w_probe: 22,
        w_deliver: 34,
        w_indication: 8,
        ..Profile::base(sim::M_C10)
    };
    let n = ctx.n(15_000, 1_500_000);
    ctx.cases("client", n, |ctx, case, rng| {
        let mut cfg = gen_cfg(rng, None, &[10]);
        cfg.fingerprint = true;
        let p = Profile { rich_app: case % 3 == 0, ..p.clone() };
        let prefix: Vec<(u8, u8, bool)> = if cfg.mech == Mech::LongTerm && rng.bool() { vec![(0, rng.below(5) as u8, false), (1, 0, false)] } else { vec![] };
        if let Some(sim) = run_walk(ctx, rng, cfg, &p, &prefix) {
            sample_history(ctx, &sim, case);
            ctx.eval(Some(history_hash(&sim)));
        }
    });
    super::enumprops::transport(ctx, sim::M_C10);
}
