#!/bin/bash
# usage: tools/detect_seeds.sh <seed>...   every confirmed seeded change x its own property's quick check at the given seeds
cd /verif
for seed in "$@"; do
  for d in seeded/C*-${ONLY:-*}; do
    id=$(basename $d); prop=${id%%-*}
    out=$(VERIF_SEED=$seed MAXLINES=3 tools/try_mutant_scratch.sh /verif/$d/patch.diff $prop quick 2>&1 | grep -E "exit=|signature=" | tr '\n' ' ' | cut -c1-230)
    echo "seed=$seed $id $out"
  done
done
