//! C03 Untrusted bytes never crash the decoder, the client or the reassembler.
//! Monitors: panic hook + supervisor (abort / CPU-time progress, see vlib/runner.py),
//! post-conditions on successful decodes, "remains usable" checks on the client.

use super::{decode, decoder, opts_name, report_panic};
use crate::ctx::{guarded, panic_sig, Ctx};
use crate::gen::{self, GenCfg};
use crate::json::{hex_trunc, J};
use crate::mutate;
use crate::refstun::wire::{self, LAttr, RngNoise};
use crate::rng::{fnv64, Rng};
use crate::server::{Fp, Integ, Responder};
use crate::sim::{self, Mech, OpResult, Sim, TxState};
use crate::walk::{gen_cfg, Profile, Walk};
use stun_agent::{StunPacketDecodedValue, StunPacketDecoder};
use stun_rs::attributes::stun::{Fingerprint, MessageIntegrity, MessageIntegritySha256};
use stun_rs::{HMACKey, StunMessage};

fn render(m: &StunMessage) -> String {
    format!("{:?}", m)
}

fn donors() -> Vec<Vec<u8>> {
    vec![
        stun_vectors::SAMPLE_REQUEST.to_vec(),
        stun_vectors::SAMPLE_IPV4_RESPONSE.to_vec(),
        stun_vectors::SAMPLE_IPV6_RESPONSE.to_vec(),
        stun_vectors::SAMPLE_REQUEST_LONG_TERM_AUTH.to_vec(),
        stun_vectors::SAMPLE_REQUEST_LONG_TERM_AUTH_SHA256.to_vec(),
    ]
}

/// all decoder configurations on one byte string + post-conditions
pub fn decode_everything(ctx: &mut Ctx, bytes: &[u8], key: &HMACKey, rng: &mut Rng, origin: &str) {
    let w = |extra: String| J::obj().set("origin", J::s(origin)).set("bytes", J::s(hex_trunc(bytes, 600))).set("len", J::u(bytes.len())).set("detail", J::s(extra));
    for o in std::iter::once(None).chain((0u8..16).map(Some)) {
        let dec = decoder(o, Some(key));
        match decode(&dec, bytes) {
            Err(p) => {
                report_panic(ctx, "MessageDecoder::decode", &p, w(opts_name(o)));
                return;
            }
            Ok(Err(_)) => ctx.count("decode.err"),
            Ok(Ok((m, size))) => {
                ctx.count("decode.ok");
                let hdr = if bytes.len() >= 4 { 20 + u16::from_be_bytes([bytes[2], bytes[3]]) as usize } else { usize::MAX };
                if size != hdr || size > bytes.len() {
                    ctx.violation(
                        "decode-size-postcondition",
                        format!("decode returned size {} ; 20+header length = {} ; input length = {}", size, hdr, bytes.len()),
                        w(opts_name(o)),
                    );
                    continue;
                }
                // the result depends only on the first `size` bytes
                if o.map(|x| x % 5 == 0).unwrap_or(true) {
                    let exact = &bytes[..size];
                    let mut extended = exact.to_vec();
                    let extra_n = 1 + rng.usize_below(40);
                    extended.extend_from_slice(&rng.bytes(extra_n));
                    for (name, b) in [("exact-length", exact.to_vec()), ("with-other-trailing-bytes", extended)] {
                        match decode(&dec, &b) {
                            Err(p) => report_panic(ctx, "MessageDecoder::decode", &p, w(name.into())),
                            Ok(Ok((m2, s2))) if s2 == size && render(&m2) == render(&m) => {}
                            Ok(other) => ctx.violation(
                                "decode-depends-on-trailing-bytes",
                                format!(
                                    "decoding the same first {} bytes ({}) gave {} instead of the same message",
                                    size,
                                    name,
                                    match other {
                                        Ok((_, s)) => format!("Ok(size {})", s),
                                        Err(e) => format!("Err({})", e),
                                    }
                                ),
                                w(opts_name(o)),
                            ),
                        }
                    }
                }
            }
        }
    }
    // helpers used by agents on raw bytes
    let r = guarded(|| {
        let a = stun_rs::get_input_text::<MessageIntegrity>(bytes).map(|v| v.len());
        let b = stun_rs::get_input_text::<MessageIntegritySha256>(bytes).map(|v| v.len());
        let c = stun_rs::get_input_text::<Fingerprint>(bytes).map(|v| v.len());
        (a, b, c)
    });
    match r {
        Err(p) => report_panic(ctx, "get_input_text", &p, w(String::new())),
        Ok((a, b, c)) => {
            for l in [a, b, c].into_iter().flatten() {
                if l > bytes.len() || l < 20 {
                    ctx.violation("get-input-text-length", format!("get_input_text returned {} bytes for an input of {}", l, bytes.len()), w(String::new()));
                }
            }
            ctx.count("get_input_text.calls");
        }
    }
}

fn base_message(rng: &mut Rng, key_spec: &wire::KeySpec) -> Vec<u8> {
    let cfg = GenCfg { max_blob: 120 };
    let mut m = gen::message(rng, 8, &cfg);
    if m.key.is_some() {
        m.key = Some(key_spec.clone());
    }
    // unknown attributes too
    if rng.chance(1, 3) {
        let at = rng.usize_below(m.attrs.len() + 1);
        let n = rng.usize_below(12);
        m.attrs.insert(at, LAttr::Unknown { typ: 0x7F00 | (rng.next_u32() as u16 & 0xFF), value: rng.bytes(n) });
    }
    wire::build(&m, &mut RngNoise(rng))
}

/// hostile 401 / 438 / success shapes for long-term clients: server-chosen strings with
/// multi-byte characters across every fixed offset, odd algorithm lists, etc.
fn hostile_challenge(rng: &mut Rng, resp: &mut Responder, id: &sim::Id, method: u16) -> Vec<u8> {
    let realm: Vec<u8> = match rng.below(5) {
        0 => b"example.org".to_vec(),
        1 => { let n = rng.usize_below(40); gen::quoted_candidate(rng, n, true) }.into_bytes(),
        2 => { let n = rng.usize_below(20); rng.bytes(n) },
        3 => { let n = rng.usize_below(60); gen::string_bytes(rng, gen::Alpha::Mixed, n) }.into_bytes(),
        _ => vec![],
    };
    let nonce: Vec<u8> = match rng.below(6) {
        0 => b"plain-nonce".to_vec(),
        1 | 2 => {
            // nonce cookie prefix followed by 0..5 ASCII and then multi-byte sequences
            let mut s = String::from("obMatJos2");
            for _ in 0..rng.below(6) {
                s.push(*rng.pick(&['A', 'g', '/', '+', '=', '9']));
            }
            for _ in 0..rng.below(4) {
                s.push(char::from_u32(0xC0 + rng.below(0x20) as u32).unwrap());
                s.push(char::from_u32(0x80 + rng.below(0x40) as u32).unwrap());
            }
            s.push_str(&{ let n = rng.usize_below(12); gen::quoted_candidate(rng, n, true) });
            s.into_bytes()
        }
        3 => crate::server::cookie_nonce(rng.bool(), rng.bool(), "x").into_bytes(),
        4 => { let n = rng.usize_below(24); rng.bytes(n) },
        _ => { let n = rng.usize_below(60); gen::quoted_candidate(rng, n, true) }.into_bytes(),
    };
    let mut extra = Vec::new();
    if rng.chance(5, 6) {
        extra.push((wire::T_REALM, realm));
    }
    if rng.chance(5, 6) {
        extra.push((wire::T_NONCE, nonce));
    }
    if rng.bool() {
        let n = rng.below(4) as usize;
        let list: Vec<(u16, Vec<u8>)> = (0..n).map(|_| (gen::alg_id(rng), gen::alg_params(rng))).collect();
        let mut v = crate::server::algs_value(&list);
        if rng.chance(1, 4) {
            v.truncate(rng.usize_below(v.len() + 1));
        }
        extra.push((wire::T_PASSWORD_ALGORITHMS, v));
    }
    if rng.chance(1, 5) {
        extra.push((wire::T_PASSWORD_ALGORITHM, { let n = rng.usize_below(9); rng.bytes(n) }));
    }
    rng.shuffle(&mut extra);
    let code = *rng.pick(&[401u16, 401, 401, 438, 400, 300]);
    let (integ, key) = resp.good_auth(false);
    let integ = if rng.chance(1, 3) { integ } else { Integ::None };
    crate::server::craft(&crate::server::Reply {
        class: 3,
        method,
        txid: *id,
        error_code: if rng.chance(9, 10) { Some((code, "x".into())) } else { None },
        extra,
        integ,
        key,
        fp: if resp.cfg.fingerprint { Fp::Good } else { Fp::Absent },
    })
}

/// After a hostile delivery the client must still be usable.
fn usable(ctx: &mut Ctx, s: &mut Sim, rng: &mut Rng) {
    if s.dead {
        return;
    }
    let r = s.send_request(ctx, 1, stun_agent::StunAttributes::default(), "usability-probe", 1024);
    if s.dead {
        return;
    }
    if let OpResult::SendErr(e) = &r {
        if !e.contains("MaxOutstandingRequestsReached") && !e.contains("InternalError") {
            ctx.violation("client-unusable-after-hostile-buffer", format!("send_request failed with {}", e), s.witness());
        }
    }
    s.now += rng.below(100_000_000);
    let _ = s.timeout(ctx, "usability-probe");
    ctx.count("client.usability-probes");
}

fn client_case(ctx: &mut Ctx, rng: &mut Rng, key_spec: &wire::KeySpec) {
    let p = Profile { steps: (0, 6), w_probe: 2, w_idle: 1, w_early: 1, late_pm: 200, silence_pm: 150, fault_pm: 150, ..Profile::base(sim::M_C03) };
    let mech = match rng.below(6) {
        0 => Mech::None,
        1 => Mech::ShortTerm(None),
        2 => Mech::ShortTerm(Some(false)),
        3 => Mech::ShortTerm(Some(true)),
        _ => Mech::LongTerm,
    };
    let cfg = gen_cfg(rng, Some(mech), &[10, 3]);
    let Ok(mut w) = Walk::new(cfg, &p, rng) else {
        ctx.count("client-build-rejected");
        return;
    };
    // reach a credential state within <= 6 operations: half of the cases by a scripted
    // prefix (so that every state is reached often), half by the random scheduler
    if rng.bool() {
        let algs = rng.below(5) as u8;
        let anon = rng.chance(1, 4);
        match w.sim.cfg.mech {
            Mech::LongTerm => match rng.below(4) {
                0 => {}
                1 => {
                    w.scripted_exchange(ctx, rng, 0, algs, anon);
                }
                2 => {
                    w.scripted_exchange(ctx, rng, 0, algs, anon);
                    w.scripted_exchange(ctx, rng, 1, 0, false);
                }
                _ => {
                    w.scripted_exchange(ctx, rng, 0, algs, anon);
                    w.scripted_exchange(ctx, rng, 1, 0, false);
                    w.scripted_exchange(ctx, rng, 2, 0, false);
                }
            },
            Mech::ShortTerm(_) => {
                if rng.bool() {
                    w.scripted_exchange(ctx, rng, 1, 0, false);
                }
            }
            Mech::None => {}
        }
    } else {
        let pre = rng.below(7);
        for _ in 0..pre {
            if w.sim.dead {
                return;
            }
            w.step(ctx, rng);
        }
    }
    if w.sim.dead {
        return;
    }
    // make sure there is an outstanding transaction to address
    if w.sim.awaiting_count() == 0 {
        w.do_send(ctx, rng);
    }
    // credential state as observed at the boundary (which exchanges took place), not read from
    // the hook's Debug string, so that an internal rename cannot starve these counters
    let tag = match &w.sim.cfg.mech {
        Mech::None => "none",
        Mech::ShortTerm(pre) => {
            if pre.is_some() || w.cred.agreed.is_some() {
                "st-learned"
            } else {
                "st-unlearned"
            }
        }
        Mech::LongTerm => match w.cred.phase {
            crate::cred::LtPhase::First => "lt-first",
            crate::cred::LtPhase::After401 => "lt-after-401",
            crate::cred::LtPhase::After438 => "lt-after-438",
            crate::cred::LtPhase::Authenticated => "lt-authenticated",
        },
    };
    ctx.count(&format!("client.state.{}", tag));
    let deliveries = 1 + rng.below(4);
    for _ in 0..deliveries {
        if w.sim.dead {
            return;
        }
        let target = w.sim.txs.iter().find(|t| t.state == TxState::Awaiting).map(|t| (t.id, t.method));
        let (id, method) = target.unwrap_or(([9u8; 12], 1));
        let (auth_integ, auth_key) = w.resp.good_auth(w.st_prefer_sha);
        let key = if auth_integ == Integ::None { None } else { Some(auth_key) };
        let kind = rng.below(5);
        let bytes = match kind {
            0 | 1 => {
                // generated message, mutated, re-addressed and re-signed so that it gets past
                // the early gates and the attribute post-processing runs
                let base = base_message(rng, key_spec);
                let (m, classes) = mutate::mutate(rng, &base, &donors());
                for c in classes {
                    ctx.count(&format!("mutation.{}", mutate::CLASSES[c]));
                }
                let class = *rng.pick(&[2u8, 2, 3, 1]);
                mutate::readdress_and_resign(&m, &id, key.as_deref(), true, Some(class))
            }
            2 => hostile_challenge(rng, &mut w.resp, &id, method),
            3 => {
                // valid reply, then mutated without re-signing
                let b = w.resp.good(&id, method, if rng.bool() { Some(401) } else { None }, w.st_prefer_sha);
                mutate::mutate(rng, &b, &donors()).0
            }
            _ => {
                // hostile challenge, mutated structurally and re-signed
                let b = hostile_challenge(rng, &mut w.resp, &id, method);
                let (m, _) = mutate::mutate(rng, &b, &donors());
                mutate::readdress_and_resign(&m, &id, key.as_deref(), true, None)
            }
        };
        ctx.count("client.hostile-deliveries");
        let (res, _evs) = w.sim.recv(ctx, "hostile", &bytes);
        match res {
            OpResult::RecvOk => ctx.count("client.hostile-accepted"),
            OpResult::RecvErr(_) => ctx.count("client.hostile-rejected"),
            _ => {}
        }
        ctx.eval(Some(fnv64(&bytes)));
    }
    usable(ctx, &mut w.sim, rng);
    if ctx.want_sample() && rng.chance(1, 300) {
        ctx.sample(J::obj().set("client", J::s(w.sim.cfg.describe())).set("credential_state", J::s(tag)).set("history", J::arr(w.sim.trace.iter().rev().take(6).rev().map(J::s))));
    }
}

fn reassembler_case(ctx: &mut Ctx, rng: &mut Rng, key_spec: &wire::KeySpec) {
    // stream of 1-3 (possibly mutated) messages, random chunking, buffers around the packet size
    let mut stream = Vec::new();
    let n = 1 + rng.below(3);
    let mut first_len = 20;
    for k in 0..n {
        let b = base_message(rng, key_spec);
        let b = if rng.chance(2, 3) { mutate::mutate(rng, &b, &[]).0 } else { b };
        if k == 0 {
            first_len = b.len().max(1);
        }
        stream.extend_from_slice(&b);
    }
    let bufsize = match rng.below(6) {
        0 => rng.usize_below(24),
        1 => first_len.saturating_sub(1),
        2 => first_len,
        3 => first_len + 1,
        4 => 20,
        _ => 65_556,
    };
    let w = |d: String| J::obj().set("stream", J::s(hex_trunc(&stream, 300))).set("buffer", J::u(bufsize)).set("detail", J::s(d));
    let r = guarded(|| -> Result<(), String> {
        let mut dec = match StunPacketDecoder::new(vec![0u8; bufsize]) {
            Ok(d) => d,
            Err(e) => {
                return if e.buffer.len() == bufsize { Ok(()) } else { Err("new() did not hand the buffer back".into()) };
            }
        };
        let mut pos = 0usize;
        let mut calls = 0;
        while pos < stream.len() && calls < 10_000 {
            calls += 1;
            let take = match rng.below(5) {
                0 => 0,
                1 => 1,
                2 => rng.usize_below(24),
                _ => rng.usize_below(stream.len() - pos + 1),
            }
            .min(stream.len() - pos);
            let data = &stream[pos..pos + take];
            match dec.decode(data) {
                Ok(StunPacketDecodedValue::Decoded((packet, consumed))) => {
                    if consumed > data.len() {
                        return Err(format!("consumed {} of a {}-byte chunk", consumed, data.len()));
                    }
                    if packet.len() > bufsize {
                        return Err("packet longer than the buffer".into());
                    }
                    pos += consumed;
                    dec = match StunPacketDecoder::new(vec![0u8; bufsize]) {
                        Ok(d) => d,
                        Err(_) => return Ok(()),
                    };
                }
                Ok(StunPacketDecodedValue::MoreBytesNeeded((d, _))) => {
                    pos += data.len();
                    dec = d;
                }
                Err(e) => {
                    if e.consumed > data.len() {
                        return Err(format!("error consumed {} of a {}-byte chunk", e.consumed, data.len()));
                    }
                    if e.buffer.len() != bufsize {
                        return Err("buffer not handed back on error".into());
                    }
                    return Ok(());
                }
            }
        }
        Ok(())
    });
    ctx.count("reassembler.streams");
    match r {
        Err(p) => ctx.violation(&format!("reassembler-panic:{}", panic_sig(&p)), format!("StunPacketDecoder panicked: {} at {}", p.message, p.location), w(String::new())),
        Ok(Err(e)) => ctx.violation("reassembler-postcondition", e.clone(), w(e)),
        Ok(Ok(())) => {}
    }
    ctx.eval(Some(fnv64(&stream) ^ bufsize as u64));
}

pub fn run(ctx: &mut Ctx) {
    ctx.track_every_case = true;
    let key_spec = wire::KeySpec::ShortTerm { password: "c03-password".into() };
    let key = crate::bridge::lib_key(&key_spec).expect("key");
    let d = donors();

    // (a) decoder: mutated generated messages and vectors, all 17 configurations
    let n = ctx.n(24_000, 4_000_000);
    ctx.cases("decoder", n, |ctx, case, rng| {
        let base = if case % 7 == 0 { d[(case / 7 % 5) as usize].clone() } else { base_message(rng, &key_spec) };
        let rounds = 1 + rng.below(2);
        let mut cur = base;
        for _ in 0..rounds {
            let (m, classes) = mutate::mutate(rng, &cur, &d);
            for c in classes {
                ctx.count(&format!("mutation.{}", mutate::CLASSES[c]));
            }
            cur = m;
        }
        // half of the cases keep the header length consistent so that attribute decoders run
        if rng.bool() && cur.len() >= 20 && cur.len() - 20 <= 65_535 {
            let l = (cur.len() - 20) as u16;
            cur[2..4].copy_from_slice(&l.to_be_bytes());
        }
        decode_everything(ctx, &cur, &key, rng, "mutated");
        if ctx.want_sample() && case % 2003 == 1 {
            ctx.sample(J::obj().set("mutated_message", J::s(hex_trunc(&cur, 160))).set("decoders", J::s("all 16 option combinations + context-less")));
        }
        ctx.eval(Some(fnv64(&cur)));
    });

    // (b) every truncation of valid messages
    let n = ctx.n(300, 40_000);
    ctx.cases("truncations", n, |ctx, _case, rng| {
        let base = base_message(rng, &key_spec);
        let fix_len = rng.bool();
        let step = if ctx.profile == "miri" { 9 } else { 1 };
        for cut in (0..base.len()).step_by(step) {
            let mut b = base[..cut].to_vec();
            if fix_len && b.len() >= 20 {
                let l = (b.len() - 20) as u16;
                b[2..4].copy_from_slice(&l.to_be_bytes());
            }
            decode_everything(ctx, &b, &key, rng, "truncated");
        }
        ctx.count("truncations.messages");
        ctx.eval(Some(fnv64(&base)));
    });

    // (b') wide messages: hundreds to thousands of tiny attributes (ordinary, unknown types,
    // repeated MI / SHA256 / FINGERPRINT with right and wrong values), optionally mutated once
    let n = ctx.n(120, 12_000);
    ctx.cases("wide", n, |ctx, case, rng| {
        use wire::WAttr;
        let kpw = b"c03-password".to_vec();
        let count = if ctx.profile == "miri" { 64 } else { *rng.pick(&[255usize, 256, 300, 700, 1500, 2700]) };
        let mut attrs: Vec<WAttr> = Vec::with_capacity(count);
        let mut bytes = 0usize;
        let flavour = rng.below(4);
        for i in 0..count {
            let a = match (flavour, rng.below(8)) {
                (0, _) | (_, 0..=3) => {
                    let t = *rng.pick(&[wire::T_SOFTWARE, 0x0024, 0x0025, 0x8029, 0x7F00, 0xFFEE, 0x0006]);
                    let l = rng.usize_below(6);
                    WAttr::Raw(t, rng.bytes(l))
                }
                (1, _) | (_, 4) => WAttr::Mi(kpw.clone(), if rng.bool() { None } else { Some(1) }),
                (2, _) | (_, 5) => WAttr::Mi256(kpw.clone(), if rng.bool() { None } else { Some(1) }),
                _ => WAttr::Fp(if i % 3 == 0 { Some(7) } else { None }),
            };
            bytes += match &a {
                WAttr::Raw(_, v) => 4 + v.len() + (4 - v.len() % 4) % 4,
                WAttr::Mi(..) => 24,
                WAttr::Mi256(..) => 36,
                _ => 8,
            };
            if bytes > 65_000 {
                break;
            }
            attrs.push(a);
        }
        let txid = gen::txid(rng);
        let mut b = wire::build_raw(gen::method(rng), rng.below(4) as u8, &txid, &attrs, &mut wire::Zero);
        if case % 3 == 0 {
            let (m, _) = mutate::mutate(rng, &b, &d);
            b = m;
        }
        ctx.count("wide.messages");
        ctx.count_n("wide.attributes", attrs.len() as u64);
        decode_everything(ctx, &b, &key, rng, "wide");
        ctx.eval(Some(fnv64(&b)));
    });

    // (c) random bytes up to 64 KiB
    let n = ctx.n(2_000, 300_000);
    ctx.cases("random-bytes", n, |ctx, _case, rng| {
        let b = mutate::random_message(rng);
        decode_everything(ctx, &b, &key, rng, "random");
        ctx.eval(Some(fnv64(&b)));
    });

    // (d) clients in every credential state reachable in <= 6 operations
    let n = ctx.n(24_000, 3_000_000);
    ctx.cases("client", n, |ctx, _case, rng| client_case(ctx, rng, &key_spec));

    // (e) stream reassembler
    let n = ctx.n(8_000, 1_500_000);
    ctx.cases("reassembler", n, |ctx, _case, rng| reassembler_case(ctx, rng, &key_spec));
}
