//! Transport-level client properties decided on simulated histories:
//! C05 (one final outcome, then silence), C06 (retransmission schedule), C11 (timer
//! notifications), C12 (outstanding limit), C15 (RTO estimator), C17 (rejected buffer
//! changes nothing).  The monitors live in `sim.rs`; here are the workload profiles.

use crate::ctx::Ctx;
use crate::json::J;
use crate::rng::{fnv64, Rng};
use crate::sim::{self, Mech, Sim, TxState};
use crate::walk::{gen_cfg, run_history, Profile};

fn finish_history(ctx: &mut Ctx, sim: &Sim, case: u64, nontrivial: bool) {
    // distinct = hash of the whole step trace shape (ops + results), not of random ids
    let mut shape = String::new();
    for l in &sim.trace {
        // strip ids / hex to keep only the shape
        let s: String = l.chars().filter(|c| !c.is_ascii_hexdigit() || c.is_ascii_alphabetic() && !"abcdef".contains(*c)).collect();
        shape.push_str(&s);
    }
    let h = fnv64(shape.as_bytes()) ^ sim.nsteps as u64;
    ctx.eval(if nontrivial { Some(h) } else { None });
    if ctx.want_sample() && case % 97 == 11 && sim.trace.len() > 10 {
        ctx.sample(
            J::obj()
                .set("config", J::s(sim.cfg.describe()))
                .set("steps", J::u(sim.nsteps))
                .set("requests", J::u(sim.txs.len()))
                .set("history_excerpt", J::arr(sim.trace.iter().take(14).map(J::s))),
        );
    }
}

fn outcomes(ctx: &mut Ctx, sim: &Sim) {
    for t in &sim.txs {
        if let TxState::Final(_) = &t.state {
            ctx.count("requests.finished");
        }
    }
}

pub fn run_c05(ctx: &mut Ctx) {
    let p = Profile { max_concurrent: 6, ..Profile::base(sim::M_C05) };
    let n = ctx.n(20_000, 2_000_000);
    ctx.cases("histories", n, |ctx, case, rng| {
        let cfg = gen_cfg(rng, None, &[10, 10, 6, 3]);
        if let Some(sim) = run_history(ctx, rng, cfg, &p) {
            outcomes(ctx, &sim);
            let nontrivial = sim.txs.iter().any(|t| t.state != TxState::Awaiting);
            finish_history(ctx, &sim, case, nontrivial);
        }
    });
    super::enumprops::transport(ctx, sim::M_C05);
}

pub fn run_c06(ctx: &mut Ctx) {
    // mostly silence and timer lateness
    let p = Profile {
        max_concurrent: 4,
        silence_pm: 800,
        fault_pm: 100,
        late_pm: 550,
        w_send: 14,
        w_fire: 45,
        w_early: 8,
        w_deliver: 12,
        w_probe: 3,
        w_indication: 1,
        ..Profile::base(sim::M_C06)
    };
    let learned = Profile { fast_responses: true, silence_pm: 450, ..p.clone() };
    let n = ctx.n(25_000, 2_500_000);
    ctx.cases("histories", n, |ctx, case, rng| {
        let mech = match rng.below(8) { 0 | 1 => Mech::ShortTerm(None), 2 => Mech::LongTerm, _ => Mech::None };
        let mut cfg = gen_cfg(rng, Some(mech), &[10]);
        if rng.chance(3, 4) {
            cfg.reliable = None;
        }
        let prof = if case % 3 == 0 { &learned } else { &p };
        if let Some(sim) = run_history(ctx, rng, cfg, prof) {
            let nontrivial = sim.txs.iter().any(|t| t.transmissions > 1 || matches!(t.state, TxState::Final(_)));
            for t in &sim.txs {
                ctx.count(&format!("c06.transmissions.{}", t.transmissions.min(11)));
                if t.rto != sim.cfg.rto_ns && sim.cfg.reliable.is_none() {
                    ctx.count("c06.requests-with-learned-rto");
                }
            }
            finish_history(ctx, &sim, case, nontrivial);
        }
    });
    // the defaults: 0, 500, 1500, 3500, 7500, 15500, 31500 ms and failure at 39500 ms
    ctx.cases("defaults", 16, |ctx, case, rng| {
        let cfg = crate::sim::SimCfg {
            reliable: None,
            rto_ns: 500_000_000,
            granularity_ns: 1_000_000,
            rm: 16,
            rc: 7,
            mech: Mech::None,
            user: "u".into(),
            password: "p".into(),
            password_raw: "p".into(),
            fingerprint: false,
            max_transactions: 10,
        };
        let mut s = match Sim::new(cfg, sim::M_C06 | sim::M_C11) {
            Ok(s) => s,
            Err(_) => return,
        };
        let attrs = stun_agent::StunAttributes::default();
        let _ = s.send_request(ctx, 1, attrs, "", 512);
        let want = [500u64, 1500, 3500, 7500, 15500, 31500, 39500];
        let mut seen = Vec::new();
        let jitter = if case == 0 { 0 } else { rng.below(400_000) };
        for (k, ms) in want.iter().enumerate() {
            let Some((_, at)) = s.armed else { break };
            if at != ms * 1_000_000 {
                ctx.violation(
                    "c06:default-schedule",
                    format!("slot {} of the default schedule is at {} ns, expected {} ms", k, at, ms),
                    s.witness(),
                );
            }
            seen.push(at / 1_000_000);
            s.now = at + jitter;
            let evs = s.timeout(ctx, "default-schedule");
            let failed = evs.iter().any(|e| matches!(e, crate::sim::Ev::Failed { .. }));
            if failed != (k == 6) {
                ctx.violation("c06:default-schedule-failure-point", format!("at {} ms failed={}", ms, failed), s.witness());
            }
        }
        ctx.count("c06.default-schedule-runs");
        if ctx.want_sample() && case == 0 {
            ctx.sample(J::obj().set("default_schedule_ms", J::arr(seen.iter().map(|x| J::i(*x as i64)))));
        }
        ctx.eval(Some(case ^ 0xdefa));
    });
    super::enumprops::transport(ctx, sim::M_C06);
}

pub fn run_c11(ctx: &mut Ctx) {
    let p = Profile {
        max_concurrent: 4,
        silence_pm: 400,
        late_pm: 500,
        w_fire: 35,
        w_probe: 10,
        w_indication: 4,
        ..Profile::base(sim::M_C11)
    };
    let n = ctx.n(25_000, 2_500_000);
    ctx.cases("histories", n, |ctx, case, rng| {
        let mech = match rng.below(6) { 0 | 1 => Mech::ShortTerm(None), 2 => Mech::LongTerm, _ => Mech::None };
        let cfg = gen_cfg(rng, Some(mech), &[10, 4]);
        if let Some(sim) = run_history(ctx, rng, cfg, &p) {
            let nontrivial = sim.txs.len() >= 2;
            finish_history(ctx, &sim, case, nontrivial);
        }
    });
    super::enumprops::transport(ctx, sim::M_C11);
}

pub fn run_c12(ctx: &mut Ctx) {
    let p = Profile {
        steps: (300, 800),
        max_concurrent: 12,
        hammer_limit: true,
        w_send: 30,
        w_indication: 8,
        w_deliver: 25,
        w_fire: 25,
        w_probe: 10,
        silence_pm: 350,
        fault_pm: 300,
        ..Profile::base(sim::M_C12)
    };
    let n = ctx.n(2_400, 200_000);
    ctx.cases("walks", n, |ctx, case, rng| {
        let limit = [0usize, 1, 2, 3, 4, 10][(case % 6) as usize];
        let cfg = gen_cfg(rng, None, &[limit]);
        ctx.count(&format!("c12.limit.{}", limit));
        if let Some(sim) = run_history(ctx, rng, cfg, &p) {
            outcomes(ctx, &sim);
            finish_history(ctx, &sim, case, !sim.txs.is_empty() || limit == 0);
        }
    });
    super::enumprops::transport(ctx, sim::M_C12);
}

pub fn run_c15(ctx: &mut Ctx) {
    let p = Profile {
        steps: (400, 1200),
        max_concurrent: 2,
        fast_responses: true,
        long_idle: true,
        silence_pm: 80,
        fault_pm: 60,
        late_pm: 200,
        w_send: 30,
        w_deliver: 40,
        w_fire: 12,
        w_idle: 10,
        w_probe: 2,
        w_early: 2,
        w_indication: 1,
        ..Profile::base(sim::M_C15)
    };
    let n = ctx.n(1_600, 150_000);
    ctx.cases("histories", n, |ctx, case, rng| {
        // credential mechanisms matter here because a transaction completed by a 401 / 438 challenge
        // or a refused response (Retry / DoNotRetry / ProtectionViolated) is a completed transaction
        // whose response time feeds the estimator like any other
        let mech = match rng.below(5) {
            0 => Mech::ShortTerm(Some(false)),
            1 => Mech::LongTerm,
            _ => Mech::None,
        };
        let mut cfg = gen_cfg(rng, Some(mech), &[10]);
        cfg.reliable = None;
        cfg.rto_ns = 100_000_000 + rng.below(2_900_000_000);
        if rng.bool() {
            // round configured values (ms multiples of 3, 4 or 10), as people configure them
            let q = *rng.pick(&[3_000_000u64, 12_000_000, 10_000_000, 300_000_000]);
            cfg.rto_ns = (cfg.rto_ns / q).max(1) * q;
        }
        cfg.granularity_ns = *rng.pick(&[1_000u64, 1_000_000, 5_000_000, 20_000_000, 50_000_000]);
        if let Some(sim) = run_history(ctx, rng, cfg, &p) {
            if sim.rtt_incomparable {
                ctx.count("c15.histories-with-excluded-zero-sample");
            }
            finish_history(ctx, &sim, case, sim.txs.len() >= 5);
        }
    });
}

pub fn run_c17(ctx: &mut Ctx) {
    let p = Profile {
        steps: (80, 220),
        max_concurrent: 4,
        w_probe: 40,
        w_deliver: 25,
        w_fire: 15,
        w_send: 15,
        fault_pm: 500,
        silence_pm: 200,
        ..Profile::base(sim::M_C17)
    };
    let n = ctx.n(15_000, 1_500_000);
    ctx.cases("histories", n, |ctx, case, rng| {
        let cfg = gen_cfg(rng, None, &[10, 4]);
        if let Some(sim) = run_history(ctx, rng, cfg, &p) {
            finish_history(ctx, &sim, case, true);
        }
    });
    twin_runs(ctx);
    super::enumprops::transport(ctx, sim::M_C17);
}

/// C17 oracle B: twin runs of the same seeded schedule without (H) and with (H') rejected
/// buffers inserted; every boundary-observable result of the shared operations must agree.
fn twin_runs(ctx: &mut Ctx) {
    use crate::walk::Walk;
    let p = Profile { w_probe: 0, w_indication: 0, ..Profile::base(0) };
    let n = ctx.n(8_000, 800_000);
    ctx.cases("twin-runs", n, |ctx, _case, rng| {
        let cfg = gen_cfg(rng, None, &[10, 3]);
        let seed = rng.next_u64();
        let nsteps = 30 + rng.below(60);
        // H: plain run, recording the observable trace
        let run = |ctx: &mut Ctx, insert: bool| -> Option<(Vec<String>, usize, Vec<u64>)> {
            let mut r = Rng::new(seed);
            let mut hostile = Rng::new(seed ^ 0x5151);
            let mut w = Walk::new(cfg.clone(), &p, &mut r).ok()?;
            let mut inserted = 0usize;
            let mut marked: Vec<u64> = Vec::new();
            let mut obs: Vec<String> = Vec::new();
            for _ in 0..nsteps {
                let before = w.sim.nsteps;
                w.step(ctx, &mut r);
                // observable results of this step (ids replaced by creation order)
                for l in w.sim.trace.iter().rev().take(w.sim.nsteps - before).rev() {
                    obs.push(normalise(l, &w.sim));
                }
                if insert && hostile.chance(1, 2) && !w.sim.dead {
                    let mark = w.sim.nsteps;
                    let tlen = w.sim.trace.len();
                    // a buffer of a kind that must be rejected
                    // kind 4: a response that fails authentication for a request that is awaiting
                    // one (unreliable transport, credentials configured): rejected, and the one
                    // documented exception applies to THAT transaction only
                    let awaiting: Vec<(crate::sim::Id, u16, u64)> =
                        w.sim.txs.iter().filter(|t| t.state == crate::sim::TxState::Awaiting).map(|t| (t.id, t.method, t.seq as u64)).collect();
                    let can_mark = w.sim.cfg.reliable.is_none() && w.sim.cfg.mech != Mech::None && !awaiting.is_empty();
                    let k = hostile.below(if can_mark { 6 } else { 4 });
                    let bytes = match k {
                        4 | 5 => {
                            let (id, method, seq) = *hostile.pick(&awaiting);
                            marked.push(seq);
                            let integ = hostile.pick(&[crate::server::Integ::MiBad, crate::server::Integ::ShaBad, crate::server::Integ::None, crate::server::Integ::MiWrongKey]).clone();
                            w.resp.bad_auth(&id, method, integ, None)
                        }
                        0 => crate::mutate::random_message(&mut hostile),
                        1 => {
                            let mut id = [0u8; 12];
                            hostile.fill(&mut id);
                            w.resp.good(&id, 1, None, false)
                        }
                        2 => {
                            let id = w.sim.txs.first().map(|t| t.id).unwrap_or([1; 12]);
                            let b = w.resp.good(&id, 1, None, false);
                            crate::mutate::readdress_and_resign(&b, &id, None, w.sim.cfg.fingerprint, Some(0))
                        }
                        _ => {
                            let mut id = [0u8; 12];
                            hostile.fill(&mut id);
                            let mut b = w.resp.good(&id, 1, Some(400), false);
                            let l = b.len();
                            b[l - 1] ^= 0x55;
                            b
                        }
                    };
                    let (res, evs) = w.sim.recv(ctx, "twin-inserted", &bytes);
                    if matches!(res, crate::sim::OpResult::RecvErr(_)) && evs.is_empty() {
                        inserted += 1;
                        // the inserted step is not part of the shared trace
                        let _ = mark;
                        w.sim.trace.truncate(tlen);
                    } else {
                        // not rejected (e.g. garbage that happens to decode as an indication):
                        // the twin comparison does not apply to this history
                        return None;
                    }
                }
            }
            Some((obs, inserted, marked))
        };
        let h = run(ctx, false);
        let h2 = run(ctx, true);
        if let (Some((mut a, _, _)), Some((mut b, inserted, marked))) = (h, h2) {
            ctx.count("c17.twin-histories");
            ctx.count_n("c17.twin-inserted-rejections", inserted as u64);
            ctx.count_n("c17.twin-inserted-auth-failures-for-awaiting", marked.len() as u64);
            // the exception: the eventual time-out of exactly those transactions may read
            // protection-violated instead of timed-out; nothing else may differ
            for seq in &marked {
                let (pv, to) = (format!("Failed(T{}, ProtectionViolated)", seq), format!("Failed(T{}, TimedOut)", seq));
                for l in a.iter_mut().chain(b.iter_mut()) {
                    if l.contains(&pv) {
                        *l = l.replace(&pv, &to);
                    }
                }
            }
            if a != b {
                let i = a.iter().zip(b.iter()).position(|(x, y)| x != y).unwrap_or(a.len().min(b.len()));
                ctx.violation(
                    "c17:continuation-differs-after-rejected-buffers",
                    format!(
                        "the same schedule with {} rejected buffers inserted diverges at shared step {}: without: {:?} ; with: {:?}",
                        inserted,
                        i,
                        a.get(i),
                        b.get(i)
                    ),
                    J::obj().set("config", J::s(cfg.describe())).set("without", J::arr(a.iter().take(i + 2).map(J::s))).set("with", J::arr(b.iter().take(i + 2).map(J::s))),
                );
            }
            ctx.eval(Some(fnv64(a.join("|").as_bytes())));
        } else {
            ctx.count("c17.twin-skipped");
        }
    });
}

/// replace transaction ids by their creation order so that twin runs are comparable
fn normalise(line: &str, sim: &Sim) -> String {
    let mut s = line.to_string();
    // ids only occur as the first argument of an event / result: "(<id>," or "(<id>)".  A bare
    // textual replace would also hit digits of a duration when a random id happens to be
    // all-decimal (seen once: "39169870225ns" -> "3T1625ns", a false divergence).
    let sub = |s: &str, id: &str, name: &str| -> String { s.replace(&format!("({},", id), &format!("({},", name)).replace(&format!("({})", id), &format!("({})", name)) };
    for t in &sim.txs {
        s = sub(&s, &crate::sim::short_id(&t.id), &format!("T{}", t.seq));
    }
    for (k, id) in sim.indication_ids.iter().enumerate() {
        s = sub(&s, &crate::sim::short_id(id), &format!("I{}", k));
    }
    // the free text of an InternalError is not an observable the properties speak about (it may
    // even quote a random transaction id): only the fact that it is an InternalError is compared
    if let (Some(a), Some(b)) = (s.find("InternalError("), s.rfind(") events=")) {
        if b > a {
            s = format!("{}InternalError(..){}", &s[..a], &s[b..]);
        }
    }
    // drop the step number and the raw bytes (they contain the random ids)
    let s = match s.find(' ') {
        Some(i) => s[i + 1..].to_string(),
        None => s,
    };
    match (s.find("on_buffer_recv("), s.find(") -> ")) {
        (Some(a), Some(b)) if b > a => {
            let label_end = s[a..].find(':').map(|x| a + x).unwrap_or(b);
            format!("{}{}", &s[..label_end], &s[b..])
        }
        _ => s,
    }
}
