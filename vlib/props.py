"""Per-property metadata used by the supervisor and the evidence writer."""

COMMON_ASSUMPTIONS = [
    "trusted base: the harness itself, the reference codec/hashes in harness/src/refstun "
    "(self-tested against RFC 3174/6234/1321/2202/4231/5769 vectors at every start), rustc",
    "verdict covers the executions observed in this run only (runtime monitoring, not proof)",
]

STABLE = ("strings used in key derivation / USERNAME / USERHASH are drawn from a PRECIS-stable "
          "alphabet (ASCII printable, Latin-1 letters, CJK, Cyrillic, emoji) on which OpaqueString "
          "processing is the identity, so the reference does not re-implement PRECIS")

SIMRULE = ("seeded scheduler over a virtual clock drives the real StunClient: application sends, server answers built by the reference codec (valid, wrongly authenticated, 401/438 challenges, fingerprint faults), loss, duplication (immediate and long after), reordering, delay, timer calls that are exact / early / late by 1 ns..beyond the deadline / spurious, idle jumps, hostile probes (unknown id, request class, garbage, mutated response, indication with an outstanding id, finished id), then a drain phase following the controller contract and post-mortem probes (two valid responses re-injected for every finished transaction, timer call one hour later). Every call is logged with result, pulled events and the hook snapshot before/after; monitors run online. ")

ENUM_T = (" Plus an EXHAUSTIVE small-scope stream: every schedule of 4 (thorough 6) actions over {send, good response to oldest/newest, bad response, timer exact/late/beyond deadline/early, duplicate of the last packet, late response for a finished request} for four fixed client configurations, each followed by the drain phase.")
ENUM_L = (" Plus an EXHAUSTIVE stream: every sequence of 3 (thorough 5) server behaviours out of 14 {401 plain / cookie+anonymity / [MD5] / [SHA256] / both+anonymity / unsupported / missing nonce, 438 with/without integrity, success authenticated / without integrity / wrong key, error 400 authenticated / without integrity} on both transports, then one more request.")
ENUM_S = (" Plus an EXHAUSTIVE stream: every sequence of 3 (thorough 5) replies out of 13 {success valid MI / valid SHA256 / both / none / MI corrupted / SHA256 under another password, error valid MI / SHA256, indication valid MI / SHA256 / both / none, run the timers to the final outcome} for 6 short-term client configurations (algorithm unset/MI/SHA256 x transport), then one more request.")

PROPS = {
    "C01": {
        "title": "Encode then decode returns the same message",
        "profiles": ["dev"],
        "thorough_profiles": ["asan"],
        "scale": {"asan": 0.1},
        "rule": ("cases: all 16384 (method,class) pairs; every ordinary attribute kind x boundary size "
                 "classes x all 8 tails; random attribute sequences (quick <=12, thorough <=40 attributes); "
                 "very long lists (255 ... 5000 attributes of 1-3 alternating kinds, up to 64,000 bytes); "
                 "large blobs; messages of 65,400-65,532 attribute bytes ending in an integrity / FINGERPRINT tail. Every "
                 "message with a tail attribute is additionally decoded by a validating decoder under the key it was "
                 "encoded with (must succeed with the same message). Oracle: the generated logical message; tail values re-computed by the "
                 "reference HMAC/CRC. Non-trivial = at least one attribute and encoding succeeded; "
                 "distinct = 64-bit hash of the encoded bytes."),
        "assumptions": [STABLE,
                        "REALM/NONCE values are whatever the library constructor stores for a generated "
                        "quoted-string candidate (constructor rejections are not counted as violations)"],
        "min_counters": {"types.pairs": 16384, "many-attributes.messages": 30, "roundtrip.validated": 10000, "near-limit-tails.messages": 50},
        "exhaustive_all": False,
    },
    "C02": {
        "title": "Bytes on the wire follow the RFC layouts (independent reference codec)",
        "profiles": ["dev"],
        "thorough_profiles": ["asan"],
        "scale": {"asan": 0.1},
        "rule": ("forward: library bytes == bytes of the independent reference codec (refstun::wire) for the same "
                 "logical message; backward: reference bytes with noise (random / all-ones / each of 256 byte values) "
                 "in every ignorable position (padding, reserved/RFFU bits, address first octet, ERROR-CODE upper "
                 "21 bits, CHANGE-REQUEST reserved bits) decode, with validation, to the same logical message. "
                 "Exhaustive: 16384 (method,class) pairs, 65536 MessageType::from inputs, 400 error codes; "
                 "XOR: each transaction-id byte flipped separately; encoder contexts with custom padding byte must equal the reference with that byte in padding positions only (incl. between PASSWORD-ALGORITHMS entries) and random padding must not change the decoded content; every decoded message is re-encoded and must give the canonical bytes. RFC 5769 / RFC 8489 B.1 vectors are "
                 "reproduced byte-for-byte by the reference first. Non-trivial = >=1 attribute; distinct = hash "
                 "of reference bytes."),
        "assumptions": [STABLE,
                        "last PASSWORD-ALGORITHMS entry is not padded inside the attribute value (RFC text ambiguous; "
                        "reference follows the library on encode)",
                        "RESPONSE-PORT is encoded with attribute length 2 (RFC 5780 wording ambiguous)"],
        "min_counters": {"types.pairs": 16384, "u16.values": 65536, "vectors.reference-reproduces": 5,
                         "backward.noise": 1000, "xor.txid-byte-flips": 1000, "reencode.compared": 10000, "padding.custom": 1000, "padding.random": 500},
    },
    "C09": {
        "title": "Decoding admits attributes after integrity/FINGERPRINT only per the RFC rule",
        "profiles": ["dev"],
        "rule": ("every sequence over {ordinary, MESSAGE-INTEGRITY, MESSAGE-INTEGRITY-SHA256, FINGERPRINT} up to the "
                 "exhaustive length (quick 7 = 21,844 sequences, thorough 9 = 349,524 sequences, i.e. beyond the 87,380 of length <= 8) plus sampled longer ones; wire bytes built "
                 "by the reference (unique SOFTWARE serial per ordinary attribute, MAC/CRC per RFC at that position); the "
                 "same enumeration (quick length 6, thorough 8) again with unknown comprehension-optional (0xFFEE) and "
                 "comprehension-required (0x7F77) types standing for 'ordinary' by position; "
                 "variants: all checksums right, every/each inadmissible one wrong, each admitted one wrong; decoded "
                 "under all 16 option combinations and the context-less decoder; oracle = the four-line admission rule "
                 "of the property (wire::admit). Non-trivial = sequence contains at least one of MI/SHA256/FP; distinct "
                 "= hash of the kind sequence."),
        "assumptions": ["validation enabled without a key while an admitted integrity attribute is present: outcome not "
                        "decided by the statement, only no-panic is checked",
                        "the agent's private iterator implementing the same rule is exercised through the client "
                        "simulations (C07/C08/C10), not here"],
        "min_counters": {"sequences.enumerated": 21845, "sequences.enumerated-unknown-ordinary": 4000, "variants.admitted-wrong": 1000, "variants.inadmissible-wrong": 1000},
        "exhaustive_all": True,
    },
    "C14": {
        "title": "Encoding respects the caller's buffer and the 64 KiB message limit",
        "profiles": ["dev", "release"],
        "thorough_profiles": ["asan"],
        "scale": {"asan": 0.2},
        "crash_is_violation": True,
        "rule": ("needed length and canonical bytes from the reference codec; (a) every buffer length 0..needed+8 for "
                 "generated messages <= 300 bytes with prefill 0x00/0xFF/random, (b) 64 sampled lengths for larger "
                 "messages, (c) attribute totals 65,500..65,532 step 4 assembled from DATA/PADDING/SOFTWARE/"
                 "MOBILITY-TICKET of varied sizes with and without a tail: must encode (and decode back), (d) totals "
                 "65,536..65,560 and 66,000..200,000: must be rejected, (e) single attribute values > 65,535 bytes. "
                 "Both the dev build (overflow checks on) and the release build (wrap-around) are run. Non-trivial = "
                 ">=1 attribute; distinct = hash of the canonical bytes."),
        "assumptions": [STABLE],
        "min_counters": {"fits.ok": 1000, "short.err": 1000, "oversize.err": 10, "over-limit.padding-crosses-limit": 6},
    },
    "C19": {
        "title": "Value types never panic and clones are independent",
        "profiles": ["dev", "release"],
        "thorough_profiles": ["asan", "miri"],
        "scale": {"asan": 0.1, "miri": 0.01},
        "crash_is_violation": True,
        "rule": ("panic monitor (catch_unwind + hook recording message/location) around every public constructor, "
                 "accessor, conversion and mutator of the stun-rs value types and the agent's StunAttributes / client "
                 "builder: all 65536 u16 and 256 u8 arguments exhaustively; hostile strings (ASCII, 2/3/4-byte UTF-8, "
                 "controls, quotes, non-ASCII spaces, nonce-cookie shaped values with multi-byte characters across byte "
                 "offsets 9..13) at boundary lengths around 0/508/509/763; every is_*/as_* accessor on every attribute "
                 "kind; sequences build -> clone -> mutate either copy -> read both for PasswordAlgorithms, "
                 "UnknownAttributes, StunAttributes (rendering of the untouched copy compared); comparison / ordering / AsRef / "
                 "From / TryFrom impls of every integer and string attribute macro instantiation, Cookie and StunError in both "
                 "operand orders. expect_* accessors are called on the matching kind only (mismatch panics are documented) and "
                 "otherwise excluded. Non-trivial = every case; distinct = hash of the argument."),
        "assumptions": ["API table written by hand from the pub fn listing of stun-rs/src; uncovered public functions "
                        "are listed in coverage.uncovered_pub_fns"],
        "min_counters": {"api.calls": 100000, "api.integer attribute traits": 1000, "api.string attribute traits": 1000,
                         "api.error value traits": 1000, "api.StunAttribute::expect_* (matching kind)": 30000, "clone.PasswordAlgorithms": 500, "clone.UnknownAttributes": 500,
                         "clone.StunAttributes": 500},
    },
    "C18": {
        "title": "Decoder options only filter or decorate; they never change what the bytes mean",
        "profiles": ["dev"],
        "thorough_profiles": ["asan"],
        "scale": {"asan": 0.1},
        "rule": ("each input (reference-built messages with noise and unknown attribute types of every length mod 4, "
                 "their structure-aware mutations, RFC vectors and mutations) is decoded under all 16 option "
                 "combinations and the context-less decoder; relations: R1 validation-on Ok(m) => validation-off Ok(m); "
                 "R2 unknown-data on/off: same outcome (same error text) and each Unknown carries exactly the wire value "
                 "bytes found by the reference TLV walk; R3 not_ignore yields every wire attribute in order and the "
                 "default result is a subsequence (validation off, both succeed); R4 no context == default context, key "
                 "without validation == no key. Non-trivial = >=1 attribute; distinct = hash of input bytes."),
        "assumptions": [],
        "min_counters": {"inputs.decodable": 2000, "R1.validated-ok": 2000, "R2.unknown-values-compared": 500,
                         "R3.compared": 2000},
    },
    "C04": {
        "title": "Message integrity accepts exactly the untampered message under the right key",
        "profiles": ["dev"],
        "thorough_profiles": ["asan"],
        "scale": {"asan": 0.1},
        "rule": ("library-encoded messages with tails MI / SHA256 / MI+SHA256, each with and without FINGERPRINT, under "
                 "short-term, long-term-MD5 and long-term-SHA256 keys; oracles: HMACKey::as_bytes() == reference key "
                 "(OpaqueString(password); MD5/SHA-256 of user:OpaqueString(realm):OpaqueString(password)), MAC bytes == "
                 "reference HMAC over the reference prefix with adjusted length, untampered accepted through both paths "
                 "(validating decoder returning the attribute; validate(get_input_text())), NOT accepted after every "
                 "single-bit flip of bytes [0,2)+[4,off)+MAC (exhaustive for messages <= 280 bytes, 24 sampled positions "
                 "for larger) and after compound faults (the same mask on two bytes 4k apart / adjacent - all such MAC "
                 "pairs when exhaustive -, MAC + prefix pairs, swapped MAC bytes), NOT accepted under keys differing in one character of password/user/realm, the other "
                 "derivation algorithm or the other mechanism; reference-appended SHA256/FINGERPRINT must not invalidate. "
                 "Stream any-order-acceptance: reference-built messages whose tail is any permutation of a subset of "
                 "{MI, SHA256, FINGERPRINT} (ordinary attributes interleaved), each integrity attribute the RFC MAC under "
                 "the decoder's key, one MAC bit flipped, or made under another key, decoded with every validating option "
                 "set (key+validation, with/without unknown-data and not_ignore): a successful decode must not contain an "
                 "integrity attribute that is not the MAC under the decoder's key. "
                 "Non-trivial = every message (all carry integrity); distinct = hash of encoded bytes."),
        "assumptions": [STABLE + "; one third of the keys additionally use non-ASCII spaces and base+combining-mark "
                        "pairs and canonical singletons (U+212B, U+2126, U+212A, U+F900, ...) whose OpaqueString mapping (space -> "
                        "U+0020, NFC) is tabulated in the generator; short-term passwords include the HMAC block-size "
                        "boundary (63/64/65/66, 127-129, 200 bytes)",
                        "a random 160/256-bit MAC collision is treated as impossible"],
        "min_counters": {"faults.rejected": 100000, "faults.compound-rejected": 20000, "wrong-key.rejected": 1000, "untampered.accepted": 1000,
                         "appended.still-valid": 300, "vectors.accepted": 5,
                         "any-order.decode-ok": 2000, "any-order.decode-refused": 2000, "any-order.good-integrity-returned": 1000},
    },
    "C16": {
        "title": "Stream reassembly yields the same packets however the stream is chunked",
        "profiles": ["dev"],
        "thorough_profiles": ["asan"],
        "scale": {"asan": 0.1},
        "crash_is_violation": True,
        "rule": ("streams of 1-3 packets (STUN header + 0..1000 attribute bytes, zero-length messages included; one in "
                 "five streams ends with a 20-byte block that is not a STUN header) fed to StunPacketDecoder in chunks, a "
                 "fresh decoder taking the rest of a chunk after each Decoded; ALL 2-cut chunkings (quick <=160, thorough "
                 "<=420 byte streams) and ALL 3-cut chunkings (quick <=48, thorough <=96), random k<=12-cut and "
                 "byte-by-byte chunkings for streams up to 3100 bytes; small|big|small streams whose middle packet has "
                 "one of the largest legal lengths (65,512-65,532 attribute bytes); buffer sizes len-1, len, len+1, 20, "
                 "smaller, larger, the buffer being a Vec of exactly that length with 0/1/3/16/4096 bytes of spare "
                 "capacity behind it and zero or non-zero old contents. A position-tracking model states for every call what must come back: Decoded exactly when the "
                 "chunk completes the packet with consumed = bytes needed, packet bytes identical, MoreBytesNeeded with "
                 "Some(exact remainder) once 20 bytes were seen (what is reported before that is left open), InvalidStunPacket / SmallBuffer at the "
                 "chunk that completes the header with consumed = header bytes taken and the buffer handed back; the final "
                 "outcome must not depend on the chunking. Distinct = hash of the stream bytes."),
        "assumptions": [],
        "min_counters": {"chunkings": 100000, "outcome.complete": 50, "outcome.invalid-header": 10,
                         "outcome.small-buffer": 50, "near-64k.streams": 8},
    },
    "C05": {
        "title": "Each request gets at most one final outcome and then falls silent",
        "profiles": ["dev"],
        "rule": SIMRULE + ("C05 oracle: per-id automaton unknown -> awaiting -> final over the event log (ids are unique, so "
                 "the history is unambiguous): a second final event, any packet/timer/event naming a finished, unknown or "
                 "indication id, a delivery for an id not awaiting, and (hook) a finished id still in the transaction table or "
                 "the timer heap are violations. Non-trivial = history with >=1 finished request; distinct = hash of the "
                 "history shape (operations, results, event kinds)." + ENUM_T),
        "assumptions": ["transaction ids drawn by the client from the OS RNG are unique (collision ignored)"],
        "min_counters": {"enumerated.schedules": 40000, "requests.finished": 2000, "probe.post-mortem-scheduled": 2000, "final.delivered": 300,
                         "final.timed-out": 300, "final.retry": 20, "final.protection-violated": 20},
    },
    "C06": {
        "title": "Requests are retransmitted on the RFC 8489 schedule and fail at the deadline",
        "profiles": ["dev"],
        "rule": SIMRULE + ("C06 oracle: closed-form schedule from the statement: for a request first sent at t0 with the RTO in "
                 "force (hook, cross-checked against the first notification) the candidate expiries are t0+(2^k-1)RTO, k<Rc, "
                 "and D = last slot + Rm*RTO (reliable: t0+timeout); at on_timeout(now) a request with expiry E<=now must fail "
                 "iff no candidate > now remains, else be retransmitted exactly once byte-identically and get E' = first "
                 "candidate > now; requests with E>now are untouched; <= Rc transmissions; exact integer-nanosecond "
                 "comparison of every notification (pending expiries read through the hook are recorded as suspicion counters only). Plus the default schedule 500..39500 ms. "
                 "Configs: RTO 1 ms-3 s incl. learned values, Rm 1-32, Rc 1-10. Non-trivial = history with a retransmission "
                 "or a final outcome." + ENUM_T),
        "assumptions": [],
        "min_counters": {"c06.retransmissions": 3000, "c06.deadline-failures": 500, "c06.late-call-skipped-slots": 100,
                         "c06.default-schedule-runs": 16, "c06.requests-with-learned-rto": 50},
    },
    "C11": {
        "title": "Timer notifications are accurate and sufficient for every request to finish",
        "profiles": ["dev"],
        "rule": SIMRULE + ("C11 oracle: after every send_request and on_timeout: no request awaiting => no notification; "
                 "otherwise exactly one, naming an awaiting request with minimal pending expiry (C06 model) and duration = "
                 "max(0, E_min - now) exactly; (hook) at least one timer entry per awaiting request. Bounded liveness: a controller "
                 "that arms one timer per latest notification and calls on_timeout when it fires (arbitrarily late) reaches "
                 "quiescence (nothing in flight, no timer armed) with every request final; each request fails at the first "
                 "controller call at/after its deadline. Non-trivial = >=2 requests in the history." + ENUM_T),
        "assumptions": ["'eventually' is restated as bounded progress: finite histories, <= 64+16*requests timer calls in the drain phase"],
        "min_counters": {"c11.notifications-checked": 10000, "c11.quiescence-points": 1000},
    },
    "C12": {
        "title": "The outstanding-request limit counts exactly the unfinished requests",
        "profiles": ["dev"],
        "rule": SIMRULE + ("C12 oracle: count = requests sent and not final (C05 automaton, from events only); send_request must "
                 "return MaxOutstandingRequestsReached iff count == limit; a refusal leaves events() empty and the hook "
                 "snapshot identical; indications change nothing (hook table size vs count is a suspicion counter only). "
                 "Limits 0,1,2,3,4,10 in rotation; walks of 300-800 operations hammering the limit. Non-trivial = walk with "
                 ">=1 request (or limit 0)." + ENUM_T),
        "assumptions": [],
        "min_counters": {"requests.refused-at-limit": 1000, "requests.finished": 2000, "final.timed-out": 200,
                         "final.delivered": 200, "indications.sent": 200},
    },
    "C15": {
        "title": "RTO estimate follows RFC 6298 with Karn's rule and goes stale after 10 minutes",
        "profiles": ["dev"],
        "rule": SIMRULE + ("C15 oracle: double-precision RFC 6298 reference (first sample SRTT=R, RTTVAR=R/2; then RTTVAR before "
                 "SRTT; RTO = SRTT + max(G, 4*RTTVAR); alpha 1/8, beta 1/4), fed with R of every request completed by a "
                 "response (delivered, or refused / challenged by the credential mechanism: Retry, DoNotRetry, ProtectionViolated; "
                 "one history in five runs the short-term, one in five the long-term mechanism) without retransmission, reset when the gap between consecutive request instants exceeds 600 s; "
                 "compared with the RTO in force for every new request (hook) within 1e-5 relative + 1 us and with the first "
                 "notified interval (boundary). Histories of 400-1200 operations, delays 1 us..beyond the first "
                 "retransmission, idle gaps 599.99-600.01 s and 601-700 s, RTO 0.1-3 s, granularity 1 us-50 ms. Histories in "
                 "which a zero-length response time occurs are excluded from comparison from that point. Non-trivial = >=5 "
                 "requests."),
        "assumptions": ["tolerance as stated by the property (implementation computes in single precision)"],
        "min_counters": {"c15.rto-compared": 5000, "c15.samples": 3000, "c15.stale-resets": 50,
                         "c15.samples.completed-by.delivered": 2000, "c15.samples.completed-by.retry": 200},
    },
    "C17": {
        "title": "A rejected buffer changes nothing",
        "profiles": ["dev"],
        "rule": SIMRULE + ("C17 oracle A (hook): for every on_buffer_recv returning Err the snapshot (outstanding ids with their "
                 "retransmission state, pending timeouts, RTT estimate, last-request instant, credential state, capacity) is "
                 "identical before/after and events() is empty; the protection-violated marker may gain exactly the id of "
                 "this buffer when it is a response for an outstanding request on unreliable transport with a mechanism "
                 "configured. Oracle B (boundary only): twin runs of the same seeded schedule without and with rejected "
                 "buffers (garbage, unknown-id responses, request class, corrupted unknown-id errors) inserted after random "
                 "steps; every shared step must return the same result and events. Probe-heavy profile. Non-trivial = "
                 "every history." + ENUM_T),
        "assumptions": [],
        "min_counters": {"c17.snapshots-compared": 20000, "c17.marker-set": 20, "c17.twin-histories": 500,
                         "c17.twin-inserted-rejections": 5000},
    },
    "C03": {
        "title": "Untrusted bytes never crash the decoder, the client or the reassembler",
        "profiles": ["dev", "release"],
        "thorough_profiles": ["asan", "miri", "fuzz"],
        "fuzz_seconds": 300,
        "scale": {"asan": 0.25, "miri": 0.003},
        "crash_is_violation": True,
        "cpu_stall_limit": 60,
        "rule": ("structure-aware mutation (bit flips, byte sets, truncation at every offset, extension, header / attribute / "
                 "nested length edits, injection of 2/3/4-byte UTF-8, overlong and invalid sequences, quotes, CR/LF/HTAB/NUL into "
                 "attribute values, value resizing, attribute type changes, duplicated / deleted / spliced attributes) of "
                 "reference-built messages and RFC vectors, plus random bytes up to 64 KiB. (a) every input decoded under all "
                 "16 option combinations + context-less: no panic (hook), post-conditions size == 20+length <= input, same "
                 "result for the first `size` bytes alone and with other trailing bytes; get_input_text on the same bytes; "
                 "plus 'wide' reference-built messages of 255-2700 tiny attributes (ordinary, unknown types, repeated MI / "
                 "SHA256 / FINGERPRINT with right and wrong values), a third of them mutated. "
                 "(b) clients of every mechanism x fingerprint x transport driven <= 6 operations, then hostile messages "
                 "re-addressed to an outstanding transaction and re-signed (FINGERPRINT / MAC recomputed when the state has a "
                 "key), hostile 401/438 challenges with server-chosen strings straddling fixed offsets; afterwards the client "
                 "must still accept send_request / on_timeout / events and keep one timer entry per outstanding request. "
                 "(c) mutated streams in random chunkings into StunPacketDecoder with buffers around the packet size. Aborts "
                 "and > 60 s CPU without progress are attributed to the current case by the supervisor. Distinct = hash of "
                 "the hostile bytes."),
        "assumptions": ["termination is restated as bounded progress: > 60 s of process CPU time inside one case is a violation"],
        "min_counters": {"decode.ok": 20000, "decode.err": 100000, "client.hostile-deliveries": 20000,
                         "client.hostile-accepted": 1000, "client.usability-probes": 10000, "reassembler.streams": 5000,
                         "client.state.lt-after-401": 500, "client.state.lt-authenticated": 500, "client.state.lt-after-438": 500,
                         "client.state.st-unlearned": 200, "client.state.st-learned": 200, "wide.messages": 100},
    },
    "C07": {
        "title": "Short-term credentials: only authenticated messages are delivered",
        "profiles": ["dev"],
        "rule": SIMRULE + ("C07: clients with short-term credentials (algorithm unset / SHA-1 / SHA-256 preconfigured), both "
                 "transports; server replies per transaction drawn from {valid MI, valid SHA256, both, none, corrupted MAC, MAC "
                 "under another password, the non-agreed algorithm, duplicates} for success and error responses and for "
                 "indications. Outgoing oracle (reference parse + HMAC): USERNAME = configured, both integrity attributes while "
                 "no algorithm is agreed, exactly the agreed one afterwards, each verifying under the password, password never "
                 "on the wire. Incoming oracle: each delivered buffer is classified FROM ITS BYTES (admitted integrity attributes "
                 "per the ordering rule, which verify under the password): must-not-deliver (nothing acceptable verifies; a "
                 "response carrying both), must-deliver (exactly one, verifying, acceptable algorithm), learning only from a "
                 "delivered response; failing response on reliable transport => TransactionFailed(ProtectionViolated), on "
                 "unreliable => Err, no event, retransmissions continue, final failure ProtectionViolated iff a response of "
                 "that transaction definitely failed authentication, TimedOut iff none did. Left open where the statement is "
                 "silent (indication with both attributes, response with both on reliable transport, buffers the library "
                 "reports as undecodable). Non-trivial = every conversation." + ENUM_S),
        "assumptions": [STABLE],
        "min_counters": {"c07.clients-with-raised-limit": 100, "c07.raised-limit.requests": 5000, "enumerated.reply-sequences": 13000, "c07.outgoing-checked": 10000, "c07.algorithm-learned": 300, "c07.reliable-failing-responses": 200,
                         "c07.unreliable-failing-responses": 500, "cred.timeout-after-failed-auth": 50,
                         "c07.incoming.response:mi-valid:none-agreed": 50, "c07.incoming.response:both:none-agreed": 20,
                         "c07.incoming.indication:mi-valid:sha1-agreed": 10},
    },
    "C08": {
        "title": "Long-term credentials: challenge, retry and authenticated delivery",
        "profiles": ["dev"],
        "rule": SIMRULE + ("C08: long-term clients, both transports, application attribute lists that pre-populate credential / "
                 "integrity attributes; scripted prefixes (401; 401+success; 401+success+438; 401+438; re-challenge) followed by a "
                 "random server: 401 with/without algorithms ([MD5], [SHA256], both orders, unsupported only, unsupported "
                 "around a supported one), anonymity bit, plain/cookie nonce, new realm, missing REALM / NONCE, cookie demanding "
                 "absent PASSWORD-ALGORITHMS; 438 with/without integrity; authenticated, unauthenticated, wrongly keyed, "
                 "wrong-kind success and error responses; indications. Oracle 1 (every request): before any challenge no "
                 "credential attribute at all; afterwards USERNAME or USERHASH=SHA-256(user:realm), REALM, most recent NONCE, "
                 "PASSWORD-ALGORITHMS equal to the offer, PASSWORD-ALGORITHM one of the offered supported entries (the client's "
                 "choice), integrity SHA-256/SHA-1 verifying under the reference key = what an RFC 8489 9.2.4 server accepts; "
                 "password bytes never on the wire; send_indication refused. Oracle 2 (deliveries, classified from bytes): "
                 "well-formed 401 without integrity => Retry; 438 with new nonce => Retry and the new nonce is used; success / "
                 "ordinary error delivered only if the expected integrity verifies (must-deliver when it verifies under the key "
                 "the client showed); indications refused. The oracle adopts a challenge only when the client emitted Retry for "
                 "it. Non-trivial = every conversation." + ENUM_L),
        "assumptions": [STABLE, "which supported algorithm is 'chosen' is left to the client (RFC: first supported; library: prefers SHA-256)"],
        "min_counters": {"c08.401-with-repeated-nonce": 20, "lt.requests-under-non-opaquestring-realm": 500, "enumerated.conversations": 5000, "c08.challenges-accepted": 2000, "c08.stale-nonce-accepted": 300, "c08.requests.First": 1000,
                         "c08.requests.After401": 1000, "c08.requests.After438": 300, "c08.requests.Authenticated": 500,
                         "c08.requests-accepted-by-reference-server": 500, "c08.incoming.success:authenticated": 500,
                         "c08.incoming.success:wrong-integrity": 50, "c08.incoming.success:no-integrity": 50,
                         "c08.indication-refused": 100, "c08.indications-received": 50},
    },
    "C10": {
        "title": "FINGERPRINT is the RFC CRC, catches small corruptions, is enforced by the client",
        "profiles": ["dev"],
        "rule": ("codec: library-encoded messages ending in FINGERPRINT (alone, after MI, after SHA256, after both): value == "
                 "reference CRC-32/ISO-HDLC over the prefix with adjusted length xor 0x5354554e; encoder output accepted "
                 "(validating decode returns a FINGERPRINT; validate(get_input_text())); after EVERY single-bit flip at every "
                 "position and 6 single-byte substitutions (+1, -1, ~, 3 random) at every offset the altered exact-length buffer "
                 "must not be accepted as carrying a valid FINGERPRINT. misplaced: library-encoded messages in which ordinary "
                 "attributes and/or a second FINGERPRINT follow the first FINGERPRINT: its value is the reference CRC with the "
                 "length ending at it, get_input_text + validate accepts it, and the value computed with the whole datagram's "
                 "length is not accepted; the responder also answers with such misplaced / doubled FINGERPRINTs. client: " + SIMRULE + "clients of every mechanism with "
                 "fingerprints on: every emitted packet ends with a FINGERPRINT carrying the reference CRC; a received response or "
                 "indication whose first FINGERPRINT is missing or wrong (classified from bytes) must give Err, no events, and "
                 "leave its transaction outstanding (hook + later completion); a valid one on a mechanism-less client is "
                 "delivered. Non-trivial = every message / conversation." + ENUM_T),
        "assumptions": ["a FINGERPRINT with a correct CRC that is not the last attribute is left open (neither missing nor wrong)"],
        "min_counters": {"c10.bit-faults-rejected": 300000, "c10.byte-faults-rejected": 200000, "c10.untampered-accepted": 1000,
                         "c10.emitted-fingerprint-checked": 10000, "c10.bad-or-missing-fingerprint-received": 1000,
                         "c10.transaction-survived-bad-fingerprint": 200, "c10.good-fingerprint-delivered": 100,
                         "c10.misplaced-rfc-value-validates": 1000, "c10.misplaced-whole-length-crc-rejected": 1000},
    },
    "C13": {
        "title": "Every packet the client emits is well formed and retransmissions are identical",
        "profiles": ["dev"],
        "rule": SIMRULE + ("C13: application attribute lists of 0-8 attributes in any order with duplicates and pre-populated "
                 "USERNAME / USERHASH / REALM / NONCE / PASSWORD-ALGORITHM(S) / MESSAGE-INTEGRITY / -SHA256 / FINGERPRINT, all "
                 "mechanisms x fingerprint x transports x credential states (scripted prefixes). Oracle: strict reference parse "
                 "of every emitted request and indication: asked class/method, fresh id equal to the returned one, attribute "
                 "sequence = application attributes (one per type, first-insertion position, a value the application supplied "
                 "for that type in the reference encoding, minus the types the mechanism owns) then only mechanism-owned attributes each at most once, "
                 "then <=1 MI, <=1 SHA256, <=1 FINGERPRINT in that order at the end, each verifying (mechanism key; the "
                 "application's own key without mechanism; CRC); retransmissions byte-identical (timer monitor). Non-trivial = "
                 "every history." + ENUM_S + ENUM_L),
        "assumptions": [STABLE, "which long-term credential attributes are required in which state is C08's business"],
        "min_counters": {"output.packets-checked": 20000, "c13.application-lists-checked": 15000, "c06.retransmissions": 2000,
                         "c13.mech.none": 100, "c13.mech.short-term": 100, "c13.mech.long-term": 100},
    },
}

# Optimised builds behave differently where it matters for several properties (integer overflow
# wraps instead of panicking, debug_assert! disappears, different float/inlining decisions), so the
# thorough tier repeats every workload that quick runs only on the dev profile on a release build
# of the same tree (same cases, half the volume); the arithmetic-heavy timer properties also do so
# in the quick tier.
for _k, _m in PROPS.items():
    if "release" not in _m.get("profiles", []):
        _m.setdefault("thorough_profiles", [])
        if "release" not in _m["thorough_profiles"]:
            _m["thorough_profiles"].insert(0, "release")
        _m.setdefault("scale", {}).setdefault("release", 0.5)
for _k in ("C06", "C12", "C15"):
    PROPS[_k]["profiles"] = ["dev", "release"]
    PROPS[_k]["thorough_profiles"] = [p for p in PROPS[_k]["thorough_profiles"] if p != "release"]
