"""Per-property metadata used by the supervisor and the evidence writer."""

COMMON_ASSUMPTIONS = [
    "trusted base: the harness itself, the reference codec/hashes in harness/src/refstun "
    "(self-tested against RFC 3174/6234/1321/2202/4231/5769 vectors at every start), rustc",
    "verdict covers the executions observed in this run only (runtime monitoring, not proof)",
]

STABLE = ("strings used in key derivation / USERNAME / USERHASH are drawn from a PRECIS-stable "
          "alphabet (ASCII printable, Latin-1 letters, CJK, Cyrillic, emoji) on which OpaqueString "
          "processing is the identity, so the reference does not re-implement PRECIS")

PROPS = {
    "C01": {
        "title": "Encode then decode returns the same message",
        "profiles": ["dev"],
        "rule": ("cases: all 16384 (method,class) pairs; every ordinary attribute kind x boundary size "
                 "classes x all 8 tails; random attribute sequences (quick <=12, thorough <=40 attributes); "
                 "large blobs. Oracle: the generated logical message; tail values re-computed by the "
                 "reference HMAC/CRC. Non-trivial = at least one attribute and encoding succeeded; "
                 "distinct = 64-bit hash of the encoded bytes."),
        "assumptions": [STABLE,
                        "REALM/NONCE values are whatever the library constructor stores for a generated "
                        "quoted-string candidate (constructor rejections are not counted as violations)"],
        "min_counters": {"types.pairs": 16384},
        "exhaustive_all": False,
    },
    "C02": {
        "title": "Bytes on the wire follow the RFC layouts (independent reference codec)",
        "profiles": ["dev"],
        "rule": ("forward: library bytes == bytes of the independent reference codec (refstun::wire) for the same "
                 "logical message; backward: reference bytes with noise (random / all-ones / each of 256 byte values) "
                 "in every ignorable position (padding, reserved/RFFU bits, address first octet, ERROR-CODE upper "
                 "21 bits, CHANGE-REQUEST reserved bits) decode, with validation, to the same logical message. "
                 "Exhaustive: 16384 (method,class) pairs, 65536 MessageType::from inputs, 400 error codes; "
                 "XOR: each transaction-id byte flipped separately. RFC 5769 / RFC 8489 B.1 vectors are "
                 "reproduced byte-for-byte by the reference first. Non-trivial = >=1 attribute; distinct = hash "
                 "of reference bytes."),
        "assumptions": [STABLE,
                        "last PASSWORD-ALGORITHMS entry is not padded inside the attribute value (RFC text ambiguous; "
                        "reference follows the library on encode)",
                        "RESPONSE-PORT is encoded with attribute length 2 (RFC 5780 wording ambiguous)"],
        "min_counters": {"types.pairs": 16384, "u16.values": 65536, "vectors.reference-reproduces": 5,
                         "backward.noise": 1000, "xor.txid-byte-flips": 1000},
    },
    "C09": {
        "title": "Decoding admits attributes after integrity/FINGERPRINT only per the RFC rule",
        "profiles": ["dev"],
        "rule": ("every sequence over {ordinary, MESSAGE-INTEGRITY, MESSAGE-INTEGRITY-SHA256, FINGERPRINT} up to the "
                 "exhaustive length (quick 6, thorough 8 = 87,380 sequences) plus sampled longer ones; wire bytes built "
                 "by the reference (unique SOFTWARE serial per ordinary attribute, MAC/CRC per RFC at that position); "
                 "variants: all checksums right, every/each inadmissible one wrong, each admitted one wrong; decoded "
                 "under all 16 option combinations and the context-less decoder; oracle = the four-line admission rule "
                 "of the property (wire::admit). Non-trivial = sequence contains at least one of MI/SHA256/FP; distinct "
                 "= hash of the kind sequence."),
        "assumptions": ["validation enabled without a key while an admitted integrity attribute is present: outcome not "
                        "decided by the statement, only no-panic is checked",
                        "the agent's private iterator implementing the same rule is exercised through the client "
                        "simulations (C07/C08/C10), not here"],
        "min_counters": {"sequences.enumerated": 5461, "variants.admitted-wrong": 1000, "variants.inadmissible-wrong": 1000},
        "exhaustive_all": True,
    },
    "C14": {
        "title": "Encoding respects the caller's buffer and the 64 KiB message limit",
        "profiles": ["dev", "release"],
        "crash_is_violation": True,
        "rule": ("needed length and canonical bytes from the reference codec; (a) every buffer length 0..needed+8 for "
                 "generated messages <= 300 bytes with prefill 0x00/0xFF/random, (b) 64 sampled lengths for larger "
                 "messages, (c) attribute totals 65,500..65,532 step 4 assembled from DATA/PADDING/SOFTWARE/"
                 "MOBILITY-TICKET of varied sizes with and without a tail: must encode (and decode back), (d) totals "
                 "65,536..65,560 and 66,000..200,000: must be rejected, (e) single attribute values > 65,535 bytes. "
                 "Both the dev build (overflow checks on) and the release build (wrap-around) are run. Non-trivial = "
                 ">=1 attribute; distinct = hash of the canonical bytes."),
        "assumptions": [STABLE],
        "min_counters": {"fits.ok": 1000, "short.err": 1000, "oversize.err": 10},
    },
    "C19": {
        "title": "Value types never panic and clones are independent",
        "profiles": ["dev", "release"],
        "thorough_profiles": ["miri"],
        "scale": {"miri": 0.002},
        "crash_is_violation": True,
        "rule": ("panic monitor (catch_unwind + hook recording message/location) around every public constructor, "
                 "accessor, conversion and mutator of the stun-rs value types and the agent's StunAttributes / client "
                 "builder: all 65536 u16 and 256 u8 arguments exhaustively; hostile strings (ASCII, 2/3/4-byte UTF-8, "
                 "controls, quotes, non-ASCII spaces, nonce-cookie shaped values with multi-byte characters across byte "
                 "offsets 9..13) at boundary lengths around 0/508/509/763; every is_*/as_* accessor on every attribute "
                 "kind; sequences build -> clone -> mutate either copy -> read both for PasswordAlgorithms, "
                 "UnknownAttributes, StunAttributes (rendering of the untouched copy compared). expect_* accessors are "
                 "excluded as documented. Non-trivial = every case; distinct = hash of the argument."),
        "assumptions": ["API table written by hand from the pub fn listing of stun-rs/src; uncovered public functions "
                        "are listed in coverage.uncovered_pub_fns"],
        "min_counters": {"api.calls": 100000, "clone.PasswordAlgorithms": 500, "clone.UnknownAttributes": 500,
                         "clone.StunAttributes": 500},
    },
    "C18": {
        "title": "Decoder options only filter or decorate; they never change what the bytes mean",
        "profiles": ["dev"],
        "rule": ("each input (reference-built messages with noise and unknown attribute types of every length mod 4, "
                 "their structure-aware mutations, RFC vectors and mutations) is decoded under all 16 option "
                 "combinations and the context-less decoder; relations: R1 validation-on Ok(m) => validation-off Ok(m); "
                 "R2 unknown-data on/off: same outcome (same error text) and each Unknown carries exactly the wire value "
                 "bytes found by the reference TLV walk; R3 not_ignore yields every wire attribute in order and the "
                 "default result is a subsequence (validation off, both succeed); R4 no context == default context, key "
                 "without validation == no key. Non-trivial = >=1 attribute; distinct = hash of input bytes."),
        "assumptions": [],
        "min_counters": {"inputs.decodable": 2000, "R1.validated-ok": 2000, "R2.unknown-values-compared": 500,
                         "R3.compared": 2000},
    },
    "C04": {
        "title": "Message integrity accepts exactly the untampered message under the right key",
        "profiles": ["dev"],
        "rule": ("library-encoded messages with tails MI / SHA256 / MI+SHA256, each with and without FINGERPRINT, under "
                 "short-term, long-term-MD5 and long-term-SHA256 keys; oracles: HMACKey::as_bytes() == reference key "
                 "(OpaqueString(password); MD5/SHA-256 of user:OpaqueString(realm):OpaqueString(password)), MAC bytes == "
                 "reference HMAC over the reference prefix with adjusted length, untampered accepted through both paths "
                 "(validating decoder returning the attribute; validate(get_input_text())), NOT accepted after every "
                 "single-bit flip of bytes [0,2)+[4,off)+MAC (exhaustive for messages <= 280 bytes, 24 sampled positions "
                 "for larger), NOT accepted under keys differing in one character of password/user/realm, the other "
                 "derivation algorithm or the other mechanism; reference-appended SHA256/FINGERPRINT must not invalidate. "
                 "Non-trivial = every message (all carry integrity); distinct = hash of encoded bytes."),
        "assumptions": [STABLE + "; one third of the keys additionally use non-ASCII spaces and base+combining-mark "
                        "pairs whose OpaqueString mapping (space -> U+0020, NFC) is tabulated in the generator",
                        "a random 160/256-bit MAC collision is treated as impossible"],
        "min_counters": {"faults.rejected": 100000, "wrong-key.rejected": 1000, "untampered.accepted": 1000,
                         "appended.still-valid": 300, "vectors.accepted": 5},
    },
    "C16": {
        "title": "Stream reassembly yields the same packets however the stream is chunked",
        "profiles": ["dev"],
        "crash_is_violation": True,
        "rule": ("streams of 1-3 packets (STUN header + 0..1000 attribute bytes, zero-length messages included; one in "
                 "five streams ends with a 20-byte block that is not a STUN header) fed to StunPacketDecoder in chunks, a "
                 "fresh decoder taking the rest of a chunk after each Decoded; ALL 2-cut chunkings (quick <=160, thorough "
                 "<=420 byte streams) and ALL 3-cut chunkings (quick <=48, thorough <=96), random k<=12-cut and "
                 "byte-by-byte chunkings for streams up to 3100 bytes; buffer sizes len-1, len, len+1, 20, smaller, "
                 "larger. A position-tracking model states for every call what must come back: Decoded exactly when the "
                 "chunk completes the packet with consumed = bytes needed, packet bytes identical, MoreBytesNeeded(None) "
                 "before 20 bytes were seen and Some(exact remainder) afterwards, InvalidStunPacket / SmallBuffer at the "
                 "chunk that completes the header with consumed = header bytes taken and the buffer handed back; the final "
                 "outcome must not depend on the chunking. Distinct = hash of the stream bytes."),
        "assumptions": [],
        "min_counters": {"chunkings": 100000, "outcome.complete": 50, "outcome.invalid-header": 10,
                         "outcome.small-buffer": 50},
    },
}
