"""Per-property metadata used by the supervisor and the evidence writer."""

COMMON_ASSUMPTIONS = [
    "trusted base: the harness itself, the reference codec/hashes in harness/src/refstun "
    "(self-tested against RFC 3174/6234/1321/2202/4231/5769 vectors at every start), rustc",
    "verdict covers the executions observed in this run only (runtime monitoring, not proof)",
]

STABLE = ("strings used in key derivation / USERNAME / USERHASH are drawn from a PRECIS-stable "
          "alphabet (ASCII printable, Latin-1 letters, CJK, Cyrillic, emoji) on which OpaqueString "
          "processing is the identity, so the reference does not re-implement PRECIS")

PROPS = {
    "C01": {
        "title": "Encode then decode returns the same message",
        "profiles": ["dev"],
        "rule": ("cases: all 16384 (method,class) pairs; every ordinary attribute kind x boundary size "
                 "classes x all 8 tails; random attribute sequences (quick <=12, thorough <=40 attributes); "
                 "large blobs. Oracle: the generated logical message; tail values re-computed by the "
                 "reference HMAC/CRC. Non-trivial = at least one attribute and encoding succeeded; "
                 "distinct = 64-bit hash of the encoded bytes."),
        "assumptions": [STABLE,
                        "REALM/NONCE values are whatever the library constructor stores for a generated "
                        "quoted-string candidate (constructor rejections are not counted as violations)"],
        "min_counters": {"types.pairs": 16384},
        "exhaustive_all": False,
    },
}
