#!/bin/bash
# usage: tools/seed_sweep.sh <tier> <seed>...     runs every registered check at each seed and
# prints one line per run; exit 1 if any run was not silent (rc != 0).  PROPS="C01 C02" restricts the checks.
tier="$1"; shift
cd "$(dirname "$0")/.." || exit 9
bad=0
for seed in "$@"; do
  for p in ${PROPS:-$(./check --list | awk '{print $1}')}; do
    out=$(VERIF_SEED=$seed ./check "$p" "$tier" 2>&1); rc=$?
    line=$(echo "$out" | grep -E "^$p " | tail -1)
    echo "seed=$seed rc=$rc $line"
    if [ $rc -ne 0 ]; then bad=1; echo "$out" | grep -E "VIOLATION|signature|INCONCLUSIVE" | head -8; fi
  done
done
exit $bad
