#!/bin/bash
# usage: tools/try_mutant.sh <patch.diff> <Cxx> [quick|thorough]
# Applies a seeded change to /repo, runs the check, and ALWAYS restores /repo afterwards.
set -u
patch="$1"; prop="$2"; tier="${3:-quick}"
cd /repo || exit 9
if ! git diff --quiet; then echo "refusing: /repo has uncommitted changes"; exit 9; fi
trap 'git -C /repo checkout -- . ; git -C /repo status --short | grep -v "^??" ' EXIT
if ! git apply "$patch"; then echo "patch does not apply"; exit 8; fi
cd /verif && ./check "$prop" "$tier" > /tmp/try_mutant.out 2>&1
rc=$?
grep -E "^VIOLATION|signature=|KNOWN-FINDING|INCONCLUSIVE|^C[0-9]+ " /tmp/try_mutant.out | cut -c1-260 | head -${MAXLINES:-12}
echo "exit=$rc"
exit $rc
