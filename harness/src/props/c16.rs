//! C16 Stream reassembly yields the same packets however the stream is chunked.
//! Oracle: the generated packet list and a position-tracking model of what each call
//! must return.

use crate::ctx::{guarded, panic_sig, Ctx};
use crate::json::{hex_trunc, J};
use crate::refstun::wire;
use crate::rng::{fnv64, Rng};
use stun_agent::{StunPacketDecodedValue, StunPacketDecoder, StunPacketErrorType};

#[derive(Clone, Debug)]
struct Stream {
    bytes: Vec<u8>,
    /// (start, len) of each packet
    packets: Vec<(usize, usize)>,
    /// index of the packet whose header is invalid, if any (stream ends there)
    bad_header: Option<usize>,
}

fn packet(rng: &mut Rng, attr_bytes: usize) -> Vec<u8> {
    let mut p = Vec::with_capacity(20 + attr_bytes);
    let t = wire::msg_type(rng.below(0x1000) as u16, rng.below(4) as u8);
    p.extend_from_slice(&t.to_be_bytes());
    p.extend_from_slice(&(attr_bytes as u16).to_be_bytes());
    p.extend_from_slice(&wire::COOKIE.to_be_bytes());
    p.extend_from_slice(&rng.bytes(12));
    p.extend_from_slice(&rng.bytes(attr_bytes));
    p
}

fn gen_stream(rng: &mut Rng, max_total: usize, max_attr: usize, with_bad: bool) -> Stream {
    let n = 1 + rng.below(3) as usize;
    let mut bytes = Vec::new();
    let mut packets = Vec::new();
    let bad_at = if with_bad { Some(rng.usize_below(n)) } else { None };
    for i in 0..n {
        let room = max_total.saturating_sub(bytes.len());
        if room < 20 {
            break;
        }
        let cap = (room - 20).min(max_attr);
        let mut attr = match rng.below(5) {
            0 => 0,
            1 => 4 * rng.below(4) as usize,
            _ => rng.below(cap as u64 + 1) as usize,
        }
        .min(cap);
        if rng.chance(9, 10) {
            attr -= attr % 4;
        }
        let mut p = packet(rng, attr);
        let start = bytes.len();
        if bad_at == Some(i) {
            // not a STUN header: top bits set or wrong cookie; the stream ends after it
            if rng.bool() {
                p[0] |= *rng.pick(&[0x40u8, 0x80, 0xC0]);
            } else {
                let k = 4 + rng.usize_below(4);
                p[k] ^= 1 << rng.below(8);
            }
            p.truncate(20 + rng.usize_below(p.len() - 19));
            bytes.extend_from_slice(&p);
            packets.push((start, p.len()));
            return Stream { bytes, packets, bad_header: Some(i) };
        }
        bytes.extend_from_slice(&p);
        packets.push((start, p.len()));
    }
    Stream { bytes, packets, bad_header: None }
}

/// Outcome of feeding a chunked stream.
#[derive(Debug, PartialEq, Eq, Clone)]
enum End {
    /// all packets decoded
    Complete,
    /// error of this kind reported when `consumed_total` bytes of the stream had been consumed
    Error { invalid: bool, consumed_total: usize },
}

/// Feed `stream` cut at `cuts` (sorted offsets) into decoders with buffers of `bufsize`.
/// Returns Err(description) on the first disagreement with the model.
/// The caller's buffer: `len` bytes long, sometimes with spare capacity behind it (a recycled
/// Vec that was truncated) and old contents - only its length may matter.
fn mk_buf(len: usize, salt: usize) -> Vec<u8> {
    let spare = [0usize, 0, 1, 16, 4096, 3][salt % 6];
    let fill = [0u8, 0xA5, 0xFF][(salt / 6) % 3];
    let mut v = Vec::with_capacity(len + spare);
    v.resize(len, fill);
    v
}

fn feed(stream: &Stream, cuts: &[usize], bufsize: usize) -> Result<End, (String, String)> {
    let salt = cuts.iter().sum::<usize>() + cuts.len() + bufsize;
    let total = stream.bytes.len();
    let mut bounds: Vec<usize> = Vec::with_capacity(cuts.len() + 2);
    bounds.push(0);
    bounds.extend_from_slice(cuts);
    bounds.push(total);
    let mut dec = match StunPacketDecoder::new(mk_buf(bufsize, salt)) {
        Ok(d) => Some(d),
        Err(e) => {
            return if bufsize < 20 && e.buffer.len() == bufsize {
                Ok(End::Error { invalid: false, consumed_total: 0 })
            } else {
                Err(("new-rejected".into(), format!("StunPacketDecoder::new rejected a {}-byte buffer", bufsize)))
            }
        }
    };
    let mut pos = 0usize; // bytes of the stream consumed so far
    let mut pk = 0usize; // current packet index
    let mut consumed_sum = 0usize;
    for w in bounds.windows(2) {
        let mut data = &stream.bytes[w[0]..w[1]];
        loop {
            let d = dec.take().expect("decoder");
            let (pstart, plen) = stream.packets[pk.min(stream.packets.len() - 1)];
            let seen_before = pos - pstart; // bytes of the current packet already consumed
            let header_done_before = seen_before >= 20;
            let res = d.decode(data);
            // what the model expects
            let header_completes = !header_done_before && seen_before + data.len() >= 20;
            let is_bad = stream.bad_header == Some(pk);
            let too_big = plen > bufsize;
            match res {
                Err(e) => {
                    let invalid = matches!(e.error_type, StunPacketErrorType::InvalidStunPacket);
                    let take = 20 - seen_before.min(20);
                    if !(header_completes && ((is_bad && invalid) || (!is_bad && too_big && !invalid))) {
                        return Err((
                            format!("unexpected-error:{:?}", e.error_type),
                            format!(
                                "error {:?} at stream offset {} (packet {} of len {}, buffer {}, bad_header={}, header completes here={})",
                                e.error_type, pos, pk, plen, bufsize, is_bad, header_completes
                            ),
                        ));
                    }
                    // the statement fixes where the error appears and that the buffer comes back; the
                    // `consumed` figure carried by the error (today: the bytes that completed the
                    // header) is not part of it: recorded, not judged
                    let _ = take;
                    if e.buffer.len() != bufsize {
                        return Err((
                            "buffer-not-handed-back".into(),
                            format!("error hands back a buffer of {} bytes, supplied {}", e.buffer.len(), bufsize),
                        ));
                    }
                    return Ok(End::Error { invalid, consumed_total: pos + take });
                }
                Ok(StunPacketDecodedValue::Decoded((packet, consumed))) => {
                    let need = plen - seen_before;
                    if is_bad || too_big {
                        return Err((
                            "error-not-reported".into(),
                            format!("packet {} decoded although {} ", pk, if is_bad { "its header is not a STUN header" } else { "it exceeds the buffer" }),
                        ));
                    }
                    if data.len() < need {
                        return Err(("decoded-too-early".into(), format!("Decoded with {} bytes still missing", need - data.len())));
                    }
                    if consumed != need {
                        return Err((
                            "consumed-count".into(),
                            format!("Decoded reports consumed={} but the packet needed {} more bytes (chunk had {})", consumed, need, data.len()),
                        ));
                    }
                    if &packet[..] != &stream.bytes[pstart..pstart + plen] {
                        return Err(("packet-bytes-differ".into(), format!("packet {} differs from the bytes supplied", pk)));
                    }
                    pos += consumed;
                    consumed_sum += consumed;
                    data = &data[consumed..];
                    pk += 1;
                    dec = Some(StunPacketDecoder::new(mk_buf(bufsize, salt + pk)).map_err(|_| ("new-rejected".to_string(), String::new()))?);
                    if pk == stream.packets.len() {
                        if !data.is_empty() {
                            return Err(("harness".into(), "leftover after last packet".into()));
                        }
                        break;
                    }
                    if data.is_empty() {
                        break;
                    }
                }
                Ok(StunPacketDecodedValue::MoreBytesNeeded((d2, missing))) => {
                    let need = plen.max(20) - seen_before;
                    if header_completes && (is_bad || too_big) {
                        return Err((
                            "error-not-reported".into(),
                            format!(
                                "the chunk completing the header of packet {} returned MoreBytesNeeded although {}",
                                pk,
                                if is_bad { "it is not a STUN header" } else { "the packet exceeds the buffer" }
                            ),
                        ));
                    }
                    if !is_bad && data.len() >= need && seen_before + data.len() >= 20 {
                        return Err(("decoded-too-late".into(), format!("MoreBytesNeeded although the chunk completes packet {}", pk)));
                    }
                    let seen_after = seen_before + data.len();
                    // the statement fixes the count only "once the header has been seen"; what is
                    // reported before that (None today) is left open
                    let expect = if seen_after >= 20 { Some(plen - seen_after) } else { None };
                    if seen_after >= 20 && missing != expect {
                        return Err((
                            "missing-bytes-count".into(),
                            format!("MoreBytesNeeded({:?}) but exact remainder is {:?} (packet len {}, seen {})", missing, expect, plen, seen_after),
                        ));
                    }
                    pos += data.len();
                    consumed_sum += data.len();
                    dec = Some(d2);
                    break;
                }
            }
        }
        if pk == stream.packets.len() {
            break;
        }
    }
    if pk == stream.packets.len() {
        if consumed_sum != total {
            return Err(("consumed-sum".into(), format!("consumed counts add up to {} of {} bytes", consumed_sum, total)));
        }
        Ok(End::Complete)
    } else {
        Err(("incomplete".into(), format!("stream exhausted with packet {} of {} still pending", pk, stream.packets.len())))
    }
}

fn run_chunking(ctx: &mut Ctx, stream: &Stream, cuts: &[usize], bufsize: usize, expect: &mut Option<End>) {
    ctx.count("chunkings");
    let r = guarded(|| feed(stream, cuts, bufsize));
    let w = || {
        J::obj()
            .set("stream", J::s(hex_trunc(&stream.bytes, 200)))
            .set("packet_lengths", J::arr(stream.packets.iter().map(|p| J::u(p.1))))
            .set("cuts", J::arr(cuts.iter().map(|c| J::u(*c))))
            .set("buffer", J::u(bufsize))
            .set("bad_header_packet", match stream.bad_header {
                Some(i) => J::u(i),
                None => J::Null,
            })
    };
    match r {
        Err(p) => ctx.violation(&format!("panic:{}", panic_sig(&p)), format!("reassembler panicked: {} at {}", p.message, p.location), w()),
        Ok(Err((sig, detail))) => ctx.violation(&format!("reassembly:{}", sig), detail, w()),
        Ok(Ok(end)) => match expect {
            None => *expect = Some(end),
            Some(e) => {
                if *e != end {
                    ctx.violation(
                        "reassembly:outcome-depends-on-chunking",
                        format!("one chunking ended with {:?}, another with {:?}", e, end),
                        w(),
                    );
                }
            }
        },
    }
}

fn buffer_sizes(rng: &mut Rng, stream: &Stream) -> Vec<usize> {
    let maxlen = stream.packets.iter().map(|p| p.1).max().unwrap_or(20);
    let mut v = vec![maxlen, maxlen + 1, maxlen + 16 + rng.usize_below(100)];
    if maxlen > 20 {
        v.push(maxlen - 1);
        v.push(20.max(maxlen - 1 - rng.usize_below(maxlen - 20)));
    }
    v.push(20);
    v
}

pub fn run(ctx: &mut Ctx) {
    let (lim2, lim3) = if ctx.quick() { (160usize, 48usize) } else { (420, 96) };

    // exhaustive 2-cut chunkings (3 chunks, empty chunks included when cuts coincide)
    let n = ctx.n(600, 15_000);
    ctx.cases("two-cuts", n, |ctx, case, rng| {
        let stream = gen_stream(rng, lim2, lim2, case % 5 == 4);
        let total = stream.bytes.len();
        for bs in buffer_sizes(rng, &stream) {
            let mut expect = None;
            for i in 0..=total {
                for j in i..=total {
                    run_chunking(ctx, &stream, &[i, j], bs, &mut expect);
                }
            }
            match &expect {
                Some(End::Complete) => ctx.count("outcome.complete"),
                Some(End::Error { invalid: true, .. }) => ctx.count("outcome.invalid-header"),
                Some(End::Error { invalid: false, .. }) => ctx.count("outcome.small-buffer"),
                None => {}
            }
        }
        if ctx.want_sample() && case % 37 == 0 {
            ctx.sample(J::obj().set("packet_lengths", J::arr(stream.packets.iter().map(|p| J::u(p.1)))).set("chunkings", J::s(format!("all {} two-cut chunkings x buffer sizes around the packet size", (total + 1) * (total + 2) / 2))));
        }
        ctx.eval(Some(fnv64(&stream.bytes)));
    });
    ctx.exhaustive.insert(format!("all 2-cut chunkings of every generated stream <= {} bytes", lim2), ctx.only.is_none());

    // exhaustive 3-cut chunkings for short streams
    let n = ctx.n(240, 8_000);
    ctx.cases("three-cuts", n, |ctx, case, rng| {
        let stream = gen_stream(rng, lim3, lim3, case % 5 == 4);
        let total = stream.bytes.len();
        let sizes = buffer_sizes(rng, &stream);
        for bs in sizes.iter().take(3) {
            let mut expect = None;
            for i in 0..=total {
                for j in i..=total {
                    for k in j..=total {
                        run_chunking(ctx, &stream, &[i, j, k], *bs, &mut expect);
                    }
                }
            }
        }
        ctx.eval(Some(fnv64(&stream.bytes)));
    });
    ctx.exhaustive.insert(format!("all 3-cut chunkings of every generated stream <= {} bytes", lim3), ctx.only.is_none());

    // the largest legal packets (header length 65,512 .. 65,532): small | big | small
    let n = ctx.n(8, 400);
    ctx.cases("near-64k", n, |ctx, case, rng| {
        let attr = [65_512usize, 65_516, 65_520, 65_524, 65_528, 65_532, 65_532, 65_516][(case % 8) as usize];
        let mut bytes = Vec::new();
        let mut packets = Vec::new();
        for a in [4 * rng.usize_below(6), attr, 4 * rng.usize_below(6)] {
            let p = packet(rng, a);
            packets.push((bytes.len(), p.len()));
            bytes.extend_from_slice(&p);
        }
        let stream = Stream { bytes, packets, bad_header: None };
        let total = stream.bytes.len();
        let (s1, l1) = stream.packets[1];
        for bs in [l1, l1 + 1, l1 - 1, l1 - 20, 65_535, 65_536 + 64] {
            let mut expect = None;
            run_chunking(ctx, &stream, &[], bs, &mut expect);
            for cuts in [vec![s1], vec![s1 + 7], vec![s1 + 20], vec![s1 + 19, s1 + 21], vec![s1 + l1 - 1], vec![s1 + l1], vec![s1 + 3, s1 + 40_000, s1 + l1 + 5]] {
                let cuts: Vec<usize> = cuts.into_iter().map(|c| c.min(total)).collect();
                run_chunking(ctx, &stream, &cuts, bs, &mut expect);
            }
            for _ in 0..3 {
                let mut cuts: Vec<usize> = (0..1 + rng.usize_below(5)).map(|_| rng.usize_below(total + 1)).collect();
                cuts.sort();
                run_chunking(ctx, &stream, &cuts, bs, &mut expect);
            }
        }
        ctx.count("near-64k.streams");
        ctx.eval(Some(fnv64(&stream.bytes[..64])));
    });

    // random multi-cut chunkings of larger streams, incl. byte-by-byte
    let n = ctx.n(12_000, 1_500_000);
    ctx.cases("random-cuts", n, |ctx, case, rng| {
        let stream = gen_stream(rng, 3_100, 1_000, case % 6 == 5);
        let total = stream.bytes.len();
        for bs in buffer_sizes(rng, &stream) {
            let mut expect = None;
            run_chunking(ctx, &stream, &[], bs, &mut expect);
            for _ in 0..6 {
                let k = 1 + rng.below(12) as usize;
                let mut cuts: Vec<usize> = (0..k).map(|_| rng.usize_below(total + 1)).collect();
                if rng.chance(1, 4) {
                    // cluster cuts around the header / packet boundaries
                    for c in cuts.iter_mut() {
                        let (s, l) = *rng.pick(&stream.packets);
                        let around = *rng.pick(&[s, s + 19, s + 20, s + 21, s + l - 1, s + l]);
                        *c = around.min(total);
                    }
                }
                cuts.sort();
                run_chunking(ctx, &stream, &cuts, bs, &mut expect);
            }
            if case % 50 == 0 {
                let cuts: Vec<usize> = (1..total).collect();
                run_chunking(ctx, &stream, &cuts, bs, &mut expect);
            }
        }
        ctx.eval(Some(fnv64(&stream.bytes)));
    });
}
