//! C19 Value types never panic; clones are independent.
//! Monitor: panic hook around every public constructor / accessor / conversion / mutator
//! of the message, attribute and key value types (the documented `expect_*` accessors are
//! excluded), driven with exhaustive small domains and hostile generated arguments; plus
//! a rendering comparison for clone independence.

use crate::ctx::{guarded, panic_sig, Ctx};
use crate::gen::{self, Alpha};
use crate::json::J;
use crate::rng::{fnv64, Rng};
use bounded_integer::{BoundedU16, BoundedU8};
use enumflags2::BitFlags;
use std::convert::TryFrom;
use std::net::{IpAddr, SocketAddr};
use stun_agent::StunAttributes;
use stun_rs::attributes::discovery::{ChangeRequest, ChangeRequestFlags, OtherAddress, Padding, ResponseOrigin, ResponsePort};
use stun_rs::attributes::ice::{IceControlled, IceControlling, Priority, UseCandidate};
use stun_rs::attributes::mobility::MobilityTicket;
use stun_rs::attributes::stun::nonce_cookie::StunSecurityFeatures;
use stun_rs::attributes::stun::{
    AlternateServer, ErrorCode, Fingerprint, MappedAddress, MessageIntegrity, MessageIntegritySha256, Nonce,
    PasswordAlgorithm, PasswordAlgorithms, Realm, Software, UnknownAttributes, UserHash, UserName, XorMappedAddress,
};
use stun_rs::attributes::turn::{
    AdditionalAddressFamily, AddressErrorCode, ChannelNumber, Data, DontFragment, EvenPort, Icmp, LifeTime,
    RequestedAddressFamily, RequestedTrasport, ReservationToken, XorPeerAddress, XorRelayedAddress,
};
use stun_rs::{
    AddressFamily, Algorithm, AlgorithmId, AttributeType, HMACKey, MessageClass, MessageMethod, MessageType,
    StunAttribute, StunAttributeType, StunMessageBuilder, TransactionId,
};

/// One guarded API call group. `desc` receives the arguments before the call so that
/// they are available as the witness if the call panics.
fn call<F: FnOnce(&mut String)>(ctx: &mut Ctx, name: &str, f: F) {
    let mut desc = String::new();
    let r = guarded(|| f(&mut desc));
    ctx.count(&format!("api.{}", name));
    ctx.count("api.calls");
    if let Err(p) = r {
        let sig = format!("panic:{}:{}", name, panic_sig(&p));
        ctx.violation(
            &sig,
            format!("{} panicked: {} at {}", name, p.message, p.location),
            J::obj().set("api", J::s(name)).set("arguments", J::s(trunc(&desc))),
        );
    }
}

fn trunc(s: &str) -> String {
    if s.len() > 600 {
        let mut c = 590;
        while !s.is_char_boundary(c) {
            c -= 1;
        }
        format!("{}...({} bytes)", &s[..c], s.len())
    } else {
        s.to_string()
    }
}

/// Hostile string: any alphabet incl. controls, quotes, multi-byte characters, placed at
/// boundary lengths.
fn hostile_string(rng: &mut Rng, max: usize) -> String {
    let n = match rng.below(8) {
        0 => rng.below(4) as usize,
        1 => max + rng.below(8) as usize,          // just above the limit
        2 => max.saturating_sub(rng.below(4) as usize),
        3 => 760 + rng.below(8) as usize,           // around the decoded limit
        _ => gen::size_class(rng, max),
    };
    match rng.below(9) {
        0 => gen::string_bytes(rng, Alpha::Ascii, n),
        1 => gen::string_bytes(rng, Alpha::Latin1, n),
        2 => gen::string_bytes(rng, Alpha::Bmp, n),
        3 => gen::string_bytes(rng, Alpha::Astral, n),
        4 => gen::quoted_candidate(rng, n, true),
        5 => {
            // controls, quotes, separators, non-ASCII spaces, soft hyphen, combining marks
            let pool = [
                '\0', '\t', '\n', '\r', ' ', '"', '\\', ':', '\u{7f}', '\u{80}', '\u{a0}', '\u{ad}', '\u{301}',
                '\u{2028}', '\u{3000}', '\u{fffd}', '\u{fdd0}', '\u{10ffff}', 'a', 'Z', '0',
            ];
            let mut s = String::new();
            while s.len() < n {
                s.push(*rng.pick(&pool));
            }
            s
        }
        6 => nonce_cookie_like(rng),
        _ => gen::string_bytes(rng, Alpha::Mixed, n),
    }
}

/// "obMatJos2" followed by 0..6 ASCII characters and then multi-byte characters, so that a
/// character straddles each of the byte offsets 9..13 the cookie parser slices at.
fn nonce_cookie_like(rng: &mut Rng) -> String {
    let mut s = String::from("obMatJos2");
    if rng.chance(1, 10) {
        s.truncate(rng.below(10) as usize);
    }
    let b64 = b"ABCDEFGHIJKLMNOPQRSTUVWXYZabcdefghijklmnopqrstuvwxyz0123456789+/=";
    for _ in 0..rng.below(7) {
        s.push(*rng.pick(b64) as char);
    }
    for _ in 0..rng.below(4) {
        match rng.below(4) {
            0 => {
                s.push(char::from_u32(0xC0 + rng.below(0x20) as u32).unwrap());
                s.push(char::from_u32(0x80 + rng.below(0x40) as u32).unwrap());
            }
            1 => {
                s.push(char::from_u32(0xE0 + rng.below(0x10) as u32).unwrap());
                s.push(char::from_u32(0x80 + rng.below(0x40) as u32).unwrap());
                s.push(char::from_u32(0x80 + rng.below(0x40) as u32).unwrap());
            }
            2 => s.push(*rng.pick(b64) as char),
            _ => s.push_str("\\\u{7f}"),
        }
    }
    s
}

fn render<T: std::fmt::Debug>(v: &T) -> String {
    format!("{:?}", v)
}

fn small_domains(ctx: &mut Ctx) {
    // all 65536 u16 values through every u16-taking conversion
    // under Miri (about four orders of magnitude slower) the domains are sampled
    let miri = ctx.profile == "miri";
    let (n16, step16) = if miri { (128u64, 521u64) } else { (65536, 1) };
    ctx.cases("u16-domain", n16, |ctx, case, _rng| {
        let v = (case * step16) as u16;
        call(ctx, "MessageType::from(u16)", |d| {
            *d = format!("{:#06x}", v);
            let t = MessageType::from(v);
            let _ = (t.method(), t.class(), t.as_u16(), render(&t));
            let t2 = MessageType::from(&v.to_be_bytes());
            assert_eq_soft(t == t2);
            let _ = MessageType::new(t.method(), t.class()).as_u16();
        });
        call(ctx, "MessageMethod::try_from(u16)", |d| {
            *d = format!("{:#06x}", v);
            if let Ok(m) = MessageMethod::try_from(v) {
                let _ = (m.as_u16(), m.is_valid(), render(&m));
            }
        });
        call(ctx, "AttributeType::from(u16)", |d| {
            *d = format!("{:#06x}", v);
            let t = AttributeType::from(v);
            let t2 = AttributeType::new(v);
            let _ = (t.as_u16(), t.is_comprehension_required(), t2.is_comprehension_optional(), render(&t), t.to_string());
            let _: u16 = t.into();
        });
        call(ctx, "AlgorithmId::from(u16)", |d| {
            *d = format!("{:#06x}", v);
            let a = AlgorithmId::from(v);
            let back: u16 = a.into();
            let _ = (a.to_string(), render(&a), back);
            let alg = Algorithm::from(a);
            let _ = (alg.algorithm(), alg.parameters());
        });
        call(ctx, "ErrorCode::new(u16,..)", |d| {
            *d = format!("{}", v);
            if let Ok(e) = stun_rs::ErrorCode::new(v, "reason") {
                let _ = (e.error_code(), e.class(), e.number(), e.reason().len());
                let attr = ErrorCode::new(e.clone());
                let _ = render(attr.error_code());
                let _ = AddressErrorCode::new(AddressFamily::IPv4, e).error_code().class();
            }
        });
        call(ctx, "ChannelNumber/ResponsePort/IcmpCode(u16)", |d| {
            *d = format!("{:#06x}", v);
            let c = ChannelNumber::new(v);
            let _ = (c.number(), render(&c), c.clone() == c);
            let r = ResponsePort::new(v);
            let _ = (r.as_u16(), r == v, v == r, r > v, r.as_ref() == &v, ResponsePort::from(v));
            let code: Option<BoundedU16<0, 511>> = BoundedU16::new(v);
            let typ: Option<BoundedU8<0, 127>> = BoundedU8::new((v & 0xff) as u8);
            if let (Some(c), Some(t)) = (code, typ) {
                let i = Icmp::new(t, c, [v as u8; 4]);
                let _ = (i.icmp_type(), i.icmp_code(), i.error_data().len(), render(&i));
            }
        });
        ctx.eval(Some(v as u64));
    });
    if !miri {
        ctx.exhaustive.insert("all 65536 values of every u16-taking constructor/conversion".into(), ctx.only.is_none());
    }

    // all 256 u8 values
    let (n8, step8) = if miri { (32u64, 8u64) } else { (256, 1) };
    ctx.cases("u8-domain", n8, |ctx, case, _rng| {
        let v = (case * step8) as u8;
        call(ctx, "MessageClass::try_from(u8)", |d| {
            *d = format!("{}", v);
            if let Ok(c) = MessageClass::try_from(v) {
                let _ = render(&c);
            }
        });
        call(ctx, "AddressFamily::try_from(u8)", |d| {
            *d = format!("{}", v);
            if let Ok(f) = AddressFamily::try_from(v) {
                let a = RequestedAddressFamily::new(f);
                let b = AdditionalAddressFamily::from(f);
                let _ = (a.family(), b.family(), render(&a));
            }
        });
        call(ctx, "IcmpType(u8)/EvenPort", |d| {
            *d = format!("{}", v);
            let t: Option<BoundedU8<0, 127>> = BoundedU8::new(v);
            let c: BoundedU16<0, 511> = BoundedU16::new(0).unwrap();
            if let Some(t) = t {
                let _ = Icmp::new(t, c, [0; 4]).icmp_type().get();
            }
            let e = EvenPort::new(v & 1 == 1);
            let _ = (e.reserve(), EvenPort::from(v & 2 == 2), EvenPort::default());
        });
        ctx.eval(None);
    });
    if !miri {
        ctx.exhaustive.insert("all 256 values of every u8-taking constructor/conversion".into(), ctx.only.is_none());
    }
}

fn assert_eq_soft(_b: bool) {}

fn strings(ctx: &mut Ctx) {
    let n = ctx.n(200_000, 20_000_000);
    ctx.cases("strings", n, |ctx, case, rng| {
        let s = hostile_string(rng, 509);
        let s2 = hostile_string(rng, 100);
        match case % 12 {
            0 => call(ctx, "UserName::new", |d| {
                *d = format!("{:?}", s);
                if let Ok(u) = UserName::new(&s) {
                    let _ = (u.as_str().len(), u == s.as_str(), s.as_str() == u, u == s, s == u, render(&u));
                    let _ = u.clone() == u;
                    let a: &str = u.as_ref();
                    let b: &String = u.as_ref();
                    let _ = (a.len(), b.len());
                    let _ = StunAttribute::from(u).attribute_type();
                }
                let _ = UserName::try_from(s.as_str()).is_ok();
                let _ = UserName::try_from(&s).is_ok();
                let _ = UserName::try_from(s.clone()).is_ok();
            }),
            1 => call(ctx, "Realm::new", |d| {
                *d = format!("{:?}", s);
                if let Ok(r) = Realm::new(&s) {
                    let _ = (r.as_str().len(), r == s.as_str(), s.as_str() == r, r == s, s == r, r == *s2.as_str(), render(&r));
                    let a: &str = r.as_ref();
                    let b: &String = r.as_ref();
                    let _ = (a.len(), b.len(), r.clone() == r, r.clone() < r);
                }
                let _ = Realm::try_from(s.as_str()).is_ok();
                let _ = Realm::try_from(&s).is_ok();
                let _ = Realm::try_from(s.clone()).is_ok();
            }),
            2 | 3 => call(ctx, "Nonce::new+security_features", |d| {
                *d = format!("{:?}", s);
                if let Ok(nn) = Nonce::new(&s) {
                    let _ = nn.is_nonce_cookie();
                    let _ = nn.security_features();
                    let _ = (nn.as_str().len(), nn == s.as_str(), s.as_str() == nn, nn == s, s == nn, render(&nn));
                    let a: &str = nn.as_ref();
                    let b: &String = nn.as_ref();
                    let _ = (a.len(), b.len(), nn.clone() == nn);
                }
                let _ = Nonce::try_from(s.as_str()).is_ok();
                let _ = Nonce::try_from(&s).is_ok();
                let _ = Nonce::try_from(s.clone()).is_ok();
            }),
            4 => call(ctx, "Nonce::new_nonce_cookie", |d| {
                let flags: Option<BitFlags<StunSecurityFeatures>> = match rng.below(5) {
                    0 => None,
                    1 => Some(BitFlags::empty()),
                    2 => Some(StunSecurityFeatures::PasswordAlgorithms.into()),
                    3 => Some(StunSecurityFeatures::UserNameAnonymity.into()),
                    _ => Some(StunSecurityFeatures::PasswordAlgorithms | StunSecurityFeatures::UserNameAnonymity),
                };
                *d = format!("value={:?} flags={:?}", s2, flags);
                if let Ok(nn) = Nonce::new_nonce_cookie(&s2, flags) {
                    let _ = nn.is_nonce_cookie();
                    let f = nn.security_features();
                    let _ = render(&f);
                }
            }),
            5 => call(ctx, "Software::new/Padding::new", |d| {
                *d = format!("{:?}", s);
                if let Ok(x) = Software::new(s.as_str()) {
                    let _ = (x.as_str().len(), x == s.as_str(), s.as_str() == x, x == s, s == x, x == *s.as_str(), render(&x));
                    let a: &str = x.as_ref();
                    let b: &String = x.as_ref();
                    let _ = (a.len(), b.len());
                }
                let _ = Software::try_from(s.as_str()).is_ok();
                let _ = Software::try_from(&s).is_ok();
                let _ = Software::try_from(s.clone()).is_ok();
                if let Ok(x) = Padding::new(s.as_str()) {
                    let _ = (x.as_str().len(), render(&x).len());
                }
            }),
            6 => call(ctx, "UserHash::new", |d| {
                *d = format!("user={:?} realm={:?}", s2, s);
                if let Ok(h) = UserHash::new(&s2, &s) {
                    let _ = (h.hash().len(), h.len(), h.clone() == h, render(&h));
                }
            }),
            7 => call(ctx, "HMACKey::new_short_term", |d| {
                *d = format!("{:?}", s);
                if let Ok(k) = HMACKey::new_short_term(&s) {
                    let _ = (k.as_bytes().len(), k.credential_mechanism().is_short_term(), k.clone() == k, render(&k).len());
                    let mi = MessageIntegrity::new(k.clone());
                    let _ = (mi.validate(s.as_bytes(), &k), render(&mi).len());
                    let mi = MessageIntegritySha256::new(k.clone());
                    let _ = mi.validate(s.as_bytes(), &k);
                }
            }),
            8 => call(ctx, "HMACKey::new_long_term", |d| {
                let alg_id = gen::alg_id(rng);
                let params = gen::alg_params(rng);
                *d = format!("user={:?} realm={:?} password={:?} alg={} params={}b", s2, s, s2, alg_id, params.len());
                let alg = if params.is_empty() { Algorithm::from(AlgorithmId::from(alg_id)) } else { Algorithm::new(AlgorithmId::from(alg_id), params.as_slice()) };
                let _ = (alg.algorithm(), alg.parameters().map(|p| p.len()), alg.clone() == alg, render(&alg).len());
                if let Ok(k) = HMACKey::new_long_term(&s2, &s, &s2, &alg) {
                    let _ = (k.as_bytes().len(), k.credential_mechanism().is_long_term());
                }
                let pa = PasswordAlgorithm::new(alg);
                let _ = (pa.algorithm(), pa.parameters().map(|p| p.len()), pa.as_ref().algorithm(), pa.clone() == pa);
            }),
            9 => call(ctx, "ErrorCode::new(reason)", |d| {
                let code = 290 + rng.below(420) as u16;
                *d = format!("code={} reason={:?}", code, s);
                if let Ok(e) = stun_rs::ErrorCode::new(code, &s) {
                    let _ = (e.class(), e.number(), e.reason().len(), e.clone() == e, render(&e).len());
                    let a = ErrorCode::from(e.clone());
                    let _ = a.error_code().error_code();
                    let ae = AddressErrorCode::new(AddressFamily::IPv6, e);
                    let _ = (ae.family(), ae.error_code().reason().len(), render(&ae).len());
                }
            }),
            10 => call(ctx, "StunClienteBuilder::with_mechanism", |d| {
                *d = format!("user={:?} password={:?}", s2, s);
                use stun_agent::{CredentialMechanism, Integrity, RttConfig, StunClienteBuilder, TransportReliability};
                let mech = match rng.below(4) {
                    0 => CredentialMechanism::LongTerm,
                    1 => CredentialMechanism::ShortTerm(None),
                    2 => CredentialMechanism::ShortTerm(Some(Integrity::MessageIntegrity)),
                    _ => CredentialMechanism::ShortTerm(Some(Integrity::MessageIntegritySha256)),
                };
                let rel = if rng.bool() {
                    TransportReliability::Reliable(std::time::Duration::from_millis(rng.below(10_000)))
                } else {
                    TransportReliability::Unreliable(RttConfig::default())
                };
                let mut b = StunClienteBuilder::new(rel).with_mechanism(s2.clone(), s.clone(), mech);
                if rng.bool() {
                    b = b.with_fingerprint();
                }
                b = b.with_max_transactions(rng.below(4) as usize);
                let _ = b.build().is_ok();
            }),
            _ => call(ctx, "get_input_text / validate on strings-as-bytes", |d| {
                *d = format!("{:?}", s);
                let _ = stun_rs::get_input_text::<MessageIntegrity>(s.as_bytes());
                let _ = stun_rs::get_input_text::<Fingerprint>(s.as_bytes());
                let fp = Fingerprint::from([s.len() as u8, 1, 2, 3]);
                let _ = (fp.validate(s.as_bytes()), Fingerprint::default().validate(s.as_bytes()), render(&fp));
            }),
        }
        ctx.eval(Some(fnv64(s.as_bytes()) ^ (case % 12)));
        if ctx.want_sample() && case % 4001 == 5 {
            ctx.sample(J::obj().set("api_group", J::i((case % 12) as i64)).set("string_argument", J::s(trunc(&s))));
        }
    });
}

fn sockaddr_and_numbers(ctx: &mut Ctx) {
    let n = ctx.n(20_000, 2_000_000);
    ctx.cases("values", n, |ctx, _case, rng| {
        let sa: SocketAddr = gen::sockaddr(rng);
        call(ctx, "address attributes", |d| {
            *d = format!("{}", sa);
            let a = MappedAddress::new(sa.ip(), sa.port());
            let b = MappedAddress::from(sa);
            let _ = (a == b, a.socket_address().port(), a.as_ref().is_ipv4(), render(&a).len());
            let _ = (AlternateServer::from(sa).socket_address().ip(), OtherAddress::new(sa.ip(), sa.port()), ResponseOrigin::from(sa));
            let x = XorMappedAddress::from(sa);
            let _ = (x.socket_address().is_ipv6(), x.as_ref().port(), x.clone() == x);
            let _ = (XorPeerAddress::from(sa).socket_address().port(), XorRelayedAddress::from(sa).socket_address().port());
            let ip: IpAddr = sa.ip();
            let _ = (RequestedAddressFamily::from(&WrapIp(ip)).family(), AdditionalAddressFamily::from(&WrapIp(ip)).family());
        });
        let (u, v) = (rng.next_u64(), rng.next_u32());
        call(ctx, "integer attributes", |d| {
            *d = format!("{} {}", u, v);
            let a = IceControlled::new(u);
            let _ = (a.as_u64(), a == u, u == a, a < u, u < a, a.as_ref() == &u, IceControlled::from(u) == a, render(&a).len());
            let b = IceControlling::new(u);
            let _ = (b.as_u64(), b.clone() == b);
            let p = Priority::new(v);
            let _ = (p.as_u32(), p == v, LifeTime::new(v).as_u32(), LifeTime::from(v) > v);
            let _ = (UseCandidate::default(), DontFragment::default());
            let _ = render(&UseCandidate::default());
        });
        let blob = gen::blob(rng, 1000);
        call(ctx, "byte-blob attributes", |d| {
            *d = format!("{} bytes", blob.len());
            let x = Data::new(&blob);
            let _ = (x.as_bytes().len(), x.len(), x.as_ref().len(), Data::from(blob.as_slice()) == x, Data::from(blob.clone()) == x, Data::default().len());
            let t = MobilityTicket::new(&blob);
            let _ = (t.value().len(), t.as_ref().len(), MobilityTicket::from(blob.as_slice()) == t, t == [0u8; 4], render(&t).len());
            let mut tok = [0u8; 8];
            for (i, b) in blob.iter().take(8).enumerate() {
                tok[i] = *b;
            }
            let r = ReservationToken::from(tok);
            let _ = (r.token().len(), r.as_ref().len(), ReservationToken::from(&tok) == r);
            let tr = RequestedTrasport::default();
            let _ = (tr.protocol().as_u8(), tr.protocol() == 17u8, 17u8 == tr.protocol(), RequestedTrasport::new(stun_rs::protocols::UDP) == tr, RequestedTrasport::from(stun_rs::protocols::UDP));
            let c = ChangeRequest::new(Some(ChangeRequestFlags::ChangeIp | ChangeRequestFlags::ChangePort));
            let _ = (c.flags().bits(), ChangeRequest::new(None).flags().is_empty(), render(&c));
            let mut mac20 = [0u8; 20];
            let mut mac32 = [0u8; 32];
            for (i, b) in blob.iter().take(32).enumerate() {
                if i < 20 {
                    mac20[i] = *b;
                }
                mac32[i] = *b;
            }
            let key = HMACKey::new_short_term("k").unwrap();
            let _ = (MessageIntegrity::from(mac20).validate(&blob, &key), MessageIntegrity::from(&mac20) == MessageIntegrity::from(mac20));
            let _ = (MessageIntegritySha256::from(mac32).validate(&blob, &key), MessageIntegritySha256::from(&mac32) == MessageIntegritySha256::from(mac32));
            let fp = Fingerprint::from(&[mac20[0], mac20[1], mac20[2], mac20[3]]);
            let _ = fp.validate(&blob);
            let mut tid = [0u8; 12];
            for (i, b) in blob.iter().take(12).enumerate() {
                tid[i] = *b;
            }
            let t = TransactionId::from(tid);
            let _ = (t.as_bytes().len(), t.len(), t.as_ref().len(), render(&t), t.to_string(), TransactionId::from(&tid) == t, TransactionId::default() == t);
            let _ = (stun_rs::MAGIC_COOKIE.as_u32(), stun_rs::MAGIC_COOKIE == 0x2112_A442u32, stun_rs::MAGIC_COOKIE == [0x21u8, 0x12, 0xa4, 0x42]);
        });
        ctx.eval(Some(u ^ v as u64));
    });
}

struct WrapIp(IpAddr);
impl AsRef<IpAddr> for &WrapIp {
    fn as_ref(&self) -> &IpAddr {
        &self.0
    }
}

fn all_kinds(rng: &mut Rng) -> Vec<StunAttribute> {
    let cfg = gen::GenCfg { max_blob: 64 };
    let key = HMACKey::new_short_term("k").unwrap();
    let mut v = Vec::new();
    for k in 0..gen::ORDINARY_KINDS {
        let a = gen::attr_of_kind(rng, k, &cfg);
        if let Ok(x) = crate::bridge::to_lib(&a, Some(&key)) {
            v.push(x);
        }
    }
    v.push(MessageIntegrity::new(key.clone()).into());
    v.push(MessageIntegritySha256::new(key).into());
    v.push(Fingerprint::default().into());
    v
}

/// every `is_*` / `as_*` accessor of StunAttribute on every kind (the mismatching ones
/// must return false / Err, never panic)
fn enum_accessors(ctx: &mut Ctx) {
    let n = ctx.n(200, 20_000);
    ctx.cases("enum-accessors", n, |ctx, _case, rng| {
        let attrs = all_kinds(rng);
        // an Unknown attribute can only be obtained from the decoder
        let unknown_msg = crate::refstun::wire::build_raw(
            1,
            2,
            &[7; 12],
            &[crate::refstun::wire::WAttr::Raw(0x7F01, vec![1, 2, 3])],
            &mut crate::refstun::wire::Zero,
        );
        let dec = super::decoder(Some(4), None);
        let mut attrs = attrs;
        if let Ok((m, _)) = dec.decode(&unknown_msg) {
            attrs.extend(m.attributes().iter().cloned());
        }
        for a in &attrs {
            call(ctx, "StunAttribute::is_*/as_*", |d| {
                *d = format!("{:?}", a.attribute_type());
                let mut hits = 0;
                macro_rules! probe {
                    ($($is:ident $as_:ident),*) => { $( if a.$is() { hits += 1; assert!(a.$as_().is_ok()); } else { assert!(a.$as_().is_err()); } )* };
                }
                probe!(
                    is_unknown as_unknown, is_alternate_server as_alternate_server, is_error_code as_error_code,
                    is_fingerprint as_fingerprint, is_mapped_address as_mapped_address,
                    is_message_integrity as_message_integrity, is_message_integrity_sha256 as_message_integrity_sha256,
                    is_nonce as_nonce, is_password_algorithm as_password_algorithm,
                    is_password_algorithms as_password_algorithms, is_realm as_realm, is_software as_software,
                    is_unknown_attributes as_unknown_attributes, is_user_hash as_user_hash, is_user_name as_user_name,
                    is_xor_mapped_address as_xor_mapped_address, is_ice_controlled as_ice_controlled,
                    is_ice_controlling as_ice_controlling, is_priority as_priority, is_use_candidate as_use_candidate,
                    is_channel_number as_channel_number, is_life_time as_life_time, is_xor_peer_address as_xor_peer_address,
                    is_xor_relayed_address as_xor_relayed_address, is_data as_data,
                    is_requested_address_family as_requested_address_family, is_even_port as_even_port,
                    is_dont_fragment as_dont_fragment, is_requested_trasport as_requested_trasport,
                    is_additional_address_family as_additional_address_family, is_reservation_token as_reservation_token,
                    is_address_error_code as_address_error_code, is_icmp as_icmp, is_mobility_ticket as_mobility_ticket,
                    is_change_request as_change_request, is_other_address as_other_address, is_padding as_padding,
                    is_response_origin as_response_origin, is_response_port as_response_port
                );
                assert!(hits == 1, "exactly one is_* accessor must answer true");
                let _ = (a.clone().attribute_type(), render(a).len());
            });
        }
        // message builder / accessors with every kind present
        call(ctx, "StunMessageBuilder/StunMessage", |d| {
            *d = format!("{} attributes", attrs.len());
            let mut b = StunMessageBuilder::new(stun_rs::methods::BINDING, MessageClass::Request);
            if rng.bool() {
                b = b.with_transaction_id(TransactionId::from([9u8; 12]));
            }
            for a in &attrs {
                b = b.with_attribute(a.clone());
            }
            let m = b.build();
            let _ = (m.method(), m.class(), m.transaction_id(), m.attributes().len(), render(&m).len());
            let _ = (m.get::<Software>().is_some(), m.get::<UserName>().is_some(), m.get::<Fingerprint>().is_some(), m.get::<Icmp>().is_some());
            let _ = (Software::get_type(), Nonce::get_type().as_u16());
        });
        ctx.eval(Some(rng.next_u64()));
    });
}

/// build -> clone -> mutate either copy -> read both
fn clone_independence(ctx: &mut Ctx) {
    let n = ctx.n(30_000, 3_000_000);
    ctx.cases("clone-independence", n, |ctx, case, rng| {
        match case % 3 {
            0 => {
                let k = rng.below(4) as usize;
                let algs: Vec<PasswordAlgorithm> = (0..k + 1)
                    .map(|_| {
                        let p = gen::alg_params(rng);
                        PasswordAlgorithm::new(if p.is_empty() {
                            Algorithm::from(AlgorithmId::from(gen::alg_id(rng)))
                        } else {
                            Algorithm::new(AlgorithmId::from(gen::alg_id(rng)), p.as_slice())
                        })
                    })
                    .collect();
                let mutate_original = rng.bool();
                let from_vec = rng.bool();
                let mut desc = String::new();
                let r = guarded(|| {
                    desc = format!("{} initial algorithms, from_vec={}, mutate_original={}", k, from_vec, mutate_original);
                    let mut a = if from_vec {
                        PasswordAlgorithms::from(algs[..k].to_vec())
                    } else {
                        let mut a = PasswordAlgorithms::default();
                        for x in &algs[..k] {
                            a.add(x.clone());
                        }
                        a
                    };
                    let mut b = a.clone();
                    let before = render(&a);
                    let (touched, untouched) = if mutate_original { (&mut a, &mut b) } else { (&mut b, &mut a) };
                    touched.add(algs[k].clone());
                    let ok = render(untouched) == before
                        && untouched.password_algorithms().len() == k
                        && touched.password_algorithms().len() == k + 1
                        && touched.iter().count() == k + 1
                        && touched.clone().into_iter().count() == k + 1;
                    ok
                });
                ctx.count("clone.PasswordAlgorithms");
                match r {
                    Err(p) => ctx.violation(
                        &format!("clone-mutate-panic:PasswordAlgorithms::add:{}", panic_sig(&p)),
                        format!("PasswordAlgorithms: clone then add panicked: {} at {}", p.message, p.location),
                        J::obj().set("sequence", J::s(desc)),
                    ),
                    Ok(false) => ctx.violation(
                        "clone-not-independent:PasswordAlgorithms",
                        "mutating one copy changed the other (or the mutation was lost)".into(),
                        J::obj().set("sequence", J::s(desc)),
                    ),
                    Ok(true) => {}
                }
            }
            1 => {
                let k = rng.below(5) as usize;
                let vals: Vec<u16> = (0..k + 1).map(|i| 0x1000 + i as u16 * 7 + (rng.below(3) as u16) * 0x100).collect();
                let mutate_original = rng.bool();
                let mut desc = String::new();
                let r = guarded(|| {
                    desc = format!("values {:?}, mutate_original={}", vals, mutate_original);
                    let mut a = UnknownAttributes::from(&vals[..k]);
                    let mut b = a.clone();
                    let before = render(&a);
                    let n0 = a.attributes().len();
                    let (touched, untouched) = if mutate_original { (&mut a, &mut b) } else { (&mut b, &mut a) };
                    let newv = 0x7777u16;
                    touched.add(newv);
                    touched.add(newv); // duplicates are ignored
                    render(untouched) == before
                        && untouched.attributes().len() == n0
                        && touched.attributes().len() == n0 + 1
                        && touched.iter().any(|x| *x == newv)
                        && touched.len() == n0 + 1
                });
                ctx.count("clone.UnknownAttributes");
                match r {
                    Err(p) => ctx.violation(
                        &format!("clone-mutate-panic:UnknownAttributes::add:{}", panic_sig(&p)),
                        format!("UnknownAttributes: clone then add panicked: {} at {}", p.message, p.location),
                        J::obj().set("sequence", J::s(desc)),
                    ),
                    Ok(false) => ctx.violation(
                        "clone-not-independent:UnknownAttributes",
                        "mutating one copy changed the other (or the mutation was lost)".into(),
                        J::obj().set("sequence", J::s(desc)),
                    ),
                    Ok(true) => {}
                }
            }
            _ => {
                let attrs = all_kinds(rng);
                let pick: Vec<StunAttribute> = (0..rng.below(6)).map(|_| rng.pick(&attrs).clone()).collect();
                let extra = rng.pick(&attrs).clone();
                let mutate_original = rng.bool();
                let remove = rng.bool();
                let mut desc = String::new();
                let r = guarded(|| {
                    desc = format!("{} attributes, mutate_original={}, remove={}", pick.len(), mutate_original, remove);
                    let mut a = StunAttributes::default();
                    for x in &pick {
                        a.add(x.clone());
                    }
                    let mut b = a.clone();
                    let before = render(&a);
                    let (touched, untouched) = if mutate_original { (&mut a, &mut b) } else { (&mut b, &mut a) };
                    if remove {
                        let _ = touched.remove::<Software>();
                        let _ = touched.remove::<MessageIntegrity>();
                        let _ = touched.remove::<MessageIntegritySha256>();
                        let _ = touched.remove::<Fingerprint>();
                        let _ = touched.remove::<UserName>();
                    } else {
                        touched.add(extra.clone());
                    }
                    let same = render(untouched) == before;
                    let v: Vec<StunAttribute> = untouched.clone().into();
                    same && v.len() <= pick.len()
                });
                ctx.count("clone.StunAttributes");
                match r {
                    Err(p) => ctx.violation(
                        &format!("clone-mutate-panic:StunAttributes:{}", panic_sig(&p)),
                        format!("StunAttributes: clone then mutate panicked: {} at {}", p.message, p.location),
                        J::obj().set("sequence", J::s(desc)),
                    ),
                    Ok(false) => ctx.violation(
                        "clone-not-independent:StunAttributes",
                        "mutating one copy changed the other".into(),
                        J::obj().set("sequence", J::s(desc)),
                    ),
                    Ok(true) => {}
                }
            }
        }
        ctx.eval(Some(fnv64(&case.to_le_bytes()) ^ rng.next_u64()));
        if ctx.want_sample() && case % 997 == 0 {
            ctx.sample(J::obj().set("sequence", J::s("build -> clone -> mutate one copy -> read both")).set("type", J::s(["PasswordAlgorithms", "UnknownAttributes", "StunAttributes"][(case % 3) as usize])));
        }
    });
}

/// Trait implementations of the value types that the other streams do not reach (found with
/// tools/coverage.sh): comparisons / conversions in both directions for every instantiation of
/// the integer / string attribute macros, Cookie, StunError, and the `expect_*` accessors on the
/// MATCHING kind (documented to panic on a mismatch only).
fn trait_impls(ctx: &mut Ctx) {
    let n = ctx.n(20_000, 2_000_000);
    ctx.cases("trait-impls", n, |ctx, _case, rng| {
        let (u, v, w) = (rng.next_u64(), rng.next_u32(), rng.next_u32() as u16);
        call(ctx, "integer attribute traits", |d| {
            *d = format!("{} {} {}", u, v, w);
            let a = IceControlling::new(u);
            let _ = (a == u, u == a, a < u, u < a, a.partial_cmp(&u), u.partial_cmp(&a), *AsRef::<u64>::as_ref(&a), IceControlling::from(u) == a, a.clone() < a, render(&a));
            let c = IceControlled::from(u);
            let _ = (c.partial_cmp(&u), u.partial_cmp(&c), *AsRef::<u64>::as_ref(&c));
            let p = Priority::new(v);
            let _ = (p == v, v == p, p < v, v < p, p.partial_cmp(&v), v.partial_cmp(&p), *AsRef::<u32>::as_ref(&p), Priority::from(v) == p, render(&p));
            let l = LifeTime::new(v);
            let _ = (l == v, v == l, l < v, v < l, l.partial_cmp(&v), v.partial_cmp(&l), *AsRef::<u32>::as_ref(&l), LifeTime::from(v) == l, render(&l));
            let r = ResponsePort::new(w);
            let _ = (r == w, w == r, r < w, w < r, r.partial_cmp(&w), w.partial_cmp(&r), *AsRef::<u16>::as_ref(&r), ResponsePort::from(w) == r, r.as_u16(), render(&r));
            let ck = stun_rs::MAGIC_COOKIE;
            let arr = v.to_be_bytes();
            let _ = (ck == v, v == ck, ck == arr, ck == &arr, arr == ck, &arr == ck, *AsRef::<u32>::as_ref(&ck), render(&ck));
        });
        let s = hostile_string(rng, 300);
        call(ctx, "string attribute traits", |d| {
            *d = format!("{:?}", s);
            let owned: String = s.clone();
            if let Ok(x) = Padding::new(s.as_str()) {
                let _ = (x.as_str().len(), x == s.as_str(), s.as_str() == x, x == owned, owned == x, x == *s.as_str(), render(&x));
                let a: &str = x.as_ref();
                let b: &String = x.as_ref();
                let _ = (a.len(), b.len(), x.clone() == x);
                let _ = StunAttribute::from(x).attribute_type();
            }
            let _ = (Padding::new(&owned).is_ok(), Padding::new(owned.clone()).is_ok());
            let _ = (Padding::try_from(s.as_str()).is_ok(), Padding::try_from(&owned).is_ok(), Padding::try_from(owned.clone()).is_ok());
            if let Ok(x) = UserName::new(&s) {
                let _ = (x == *s.as_str(), x.clone() == x);
            }
            if let Ok(x) = Nonce::new(&s) {
                let _ = (x == *s.as_str(), x.clone() == x);
            }
            if let Ok(x) = Realm::new(&s) {
                let _ = (x == *s.as_str(), x.clone() == x);
            }
        });
        call(ctx, "error value traits", |d| {
            *d = format!("{:?}", s);
            // errors are value types handed to the caller: comparing / printing them must not panic
            let e1 = UserName::new("").err();
            let e2 = Realm::new(&s).err();
            let e3 = stun_rs::ErrorCode::new(w, &s).err();
            let e4 = MessageMethod::try_from(w).err();
            let all: Vec<stun_rs::StunError> = [e1, e2, e3, e4].into_iter().flatten().collect();
            for a in &all {
                for b in &all {
                    let _ = (a == b, *a == stun_rs::StunErrorType::InvalidParam, stun_rs::StunErrorType::InvalidParam == *a);
                }
                let _ = (a.to_string().len(), render(a).len(), std::error::Error::source(a).is_some());
            }
            let e: stun_rs::StunError = u8::try_from(300u16).unwrap_err().into();
            let _ = (e.to_string(), std::error::Error::source(&e).is_some());
        });
        let attrs = all_kinds(rng);
        for a in &attrs {
            call(ctx, "StunAttribute::expect_* (matching kind)", |d| {
                *d = format!("{:?}", a.attribute_type());
                let mut hits = 0;
                macro_rules! probe {
                    ($($is:ident $ex:ident),*) => { $( if a.$is() { hits += 1; let _ = render(a.$ex()); } )* };
                }
                probe!(
                    is_alternate_server expect_alternate_server, is_error_code expect_error_code,
                    is_fingerprint expect_fingerprint, is_mapped_address expect_mapped_address,
                    is_message_integrity expect_message_integrity, is_message_integrity_sha256 expect_message_integrity_sha256,
                    is_nonce expect_nonce, is_password_algorithm expect_password_algorithm,
                    is_password_algorithms expect_password_algorithms, is_realm expect_realm, is_software expect_software,
                    is_unknown_attributes expect_unknown_attributes, is_user_hash expect_user_hash, is_user_name expect_user_name,
                    is_xor_mapped_address expect_xor_mapped_address, is_ice_controlled expect_ice_controlled,
                    is_ice_controlling expect_ice_controlling, is_priority expect_priority, is_use_candidate expect_use_candidate,
                    is_channel_number expect_channel_number, is_life_time expect_life_time, is_xor_peer_address expect_xor_peer_address,
                    is_xor_relayed_address expect_xor_relayed_address, is_data expect_data,
                    is_requested_address_family expect_requested_address_family, is_even_port expect_even_port,
                    is_dont_fragment expect_dont_fragment, is_requested_trasport expect_requested_trasport,
                    is_additional_address_family expect_additional_address_family, is_reservation_token expect_reservation_token,
                    is_address_error_code expect_address_error_code, is_icmp expect_icmp, is_mobility_ticket expect_mobility_ticket,
                    is_change_request expect_change_request, is_other_address expect_other_address, is_padding expect_padding,
                    is_response_origin expect_response_origin, is_response_port expect_response_port
                );
                assert!(hits == 1, "exactly one is_* accessor must answer true");
            });
        }
        ctx.eval(Some(u ^ v as u64));
    });
}

pub fn run(ctx: &mut Ctx) {
    ctx.track_every_case = false;
    small_domains(ctx);
    strings(ctx);
    sockaddr_and_numbers(ctx);
    enum_accessors(ctx);
    trait_impls(ctx);
    clone_independence(ctx);
}
