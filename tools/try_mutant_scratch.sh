#!/bin/bash
# usage: tools/try_mutant_scratch.sh <patch.diff> <Cxx> [quick|thorough]
# Same as try_mutant.sh but never touches /repo: the patch is applied to a scratch worktree
# (/tmp/scratch_repo) and the checks run from a scratch copy of /verif (/tmp/scratch_verif)
# whose harness points at that worktree.  SCRATCH_SUFFIX=_b selects a second, independent pair.  Safe to run while other checks use /repo.
set -u
patch="$1"; prop="$2"; tier="${3:-quick}"
X="${SCRATCH_SUFFIX:-}"; SR=/tmp/scratch_repo$X; SV=/tmp/scratch_verif$X; OUT=/tmp/try_mutant_scratch$X.out
if [ ! -d "$SR" ]; then git -C /repo worktree add -q --detach "$SR" HEAD || exit 9; cp /repo/Cargo.lock "$SR/Cargo.lock"; fi
( cd "$SR" && git checkout -q --detach "$(git -C /repo rev-parse HEAD)" && git checkout -- . && git clean -fdq -e target -e Cargo.lock ) || exit 9
mkdir -p "$SV"
rsync -a --delete --exclude '.git' --exclude 'harness/target*' --exclude '.run' --exclude 'replay' --exclude 'evidence' /verif/ "$SV/"
mkdir -p "$SV/evidence"
sed -i "s#\"/repo/#\"$SR/#g" "$SV/harness/Cargo.toml" "$SV/harness/fuzz/Cargo.toml"
if ! ( cd "$SR" && git apply "$patch" ); then echo "patch does not apply"; exit 8; fi
( cd "$SV" && ./check "$prop" "$tier" > $OUT 2>&1 ); rc=$?
( cd "$SR" && git checkout -- . )
grep -E "^VIOLATION|signature=|KNOWN-FINDING|INCONCLUSIVE|^C[0-9]+ " $OUT | cut -c1-260 | head -${MAXLINES:-12}
echo "exit=$rc"
exit $rc
