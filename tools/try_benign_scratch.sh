#!/bin/bash
# usage: tools/try_benign_scratch.sh <patch.diff> [seed] [props...]
# Applies a (supposedly property-preserving) change to the scratch worktree and runs every quick
# check from a scratch copy of /verif against it; prints one line per check. Any exit != 0 is a
# false alarm of the machinery (or the change is not benign after all). Never touches /repo.
set -u
patch="$1"; seed="${2:-1}"; shift; shift || true
props="${*:-C01 C02 C03 C04 C05 C06 C07 C08 C09 C10 C11 C12 C13 C14 C15 C16 C17 C18 C19}"
X="${SCRATCH_SUFFIX:-}"; SR=/tmp/scratch_repo$X; SV=/tmp/scratch_verif$X
if [ ! -d "$SR" ]; then git -C /repo worktree add -q --detach "$SR" HEAD || exit 9; cp /repo/Cargo.lock "$SR/Cargo.lock"; fi
( cd "$SR" && git checkout -q --detach "$(git -C /repo rev-parse HEAD)" && git checkout -- . && git clean -fdq -e target -e Cargo.lock ) || exit 9
mkdir -p "$SV"
rsync -a --delete --exclude '.git' --exclude 'harness/target*' --exclude '.run' --exclude 'replay' --exclude 'evidence' --exclude mutants --exclude seeded --exclude seeded_raw /verif/ "$SV/"
mkdir -p "$SV/evidence"
sed -i "s#\"/repo/#\"$SR/#g" "$SV/harness/Cargo.toml" "$SV/harness/fuzz/Cargo.toml"
if ! ( cd "$SR" && git apply "$patch" ); then echo "patch does not apply"; exit 8; fi
bad=0
for p in $props; do
  ( cd "$SV" && VERIF_SEED=$seed ./check "$p" quick > /tmp/try_benign$X.$p.out 2>&1 ); rc=$?
  if [ $rc -ne 0 ]; then bad=1; echo "ALARM $p exit=$rc"; grep -E "^VIOLATION|signature=|INCONCLUSIVE" /tmp/try_benign$X.$p.out | cut -c1-240 | head -6; else echo "silent $p"; fi
done
( cd "$SR" && git checkout -- . )
exit $bad
