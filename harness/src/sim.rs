//! Client simulation on a virtual clock.  Every call into the client goes through `Sim`,
//! which records the call, its result, the pulled events and the hook snapshot before and
//! after, keeps the reference model of the outstanding requests (closed-form
//! retransmission schedule), and runs the enabled monitors online.

use crate::ctx::{guarded, panic_sig, Ctx, PanicInfo};
use crate::json::{hex_trunc, J};
use crate::refstun::wire;
use std::collections::HashMap;
use std::time::{Duration, Instant};
use stun_agent::{
    CredentialMechanism, Integrity, RttConfig, StunAgentError, StunAttributes, StunClient, StunClientEvent,
    StunClienteBuilder, StunTransactionError, TransportReliability, VerifSnapshot,
};
use stun_rs::{MessageMethod, TransactionId};

pub type Id = [u8; 12];

/// replay mode: keep whole buffers in the step trace
pub static FULL_TRACE: std::sync::atomic::AtomicBool = std::sync::atomic::AtomicBool::new(false);

pub const M_C05: u32 = 1 << 0;
pub const M_C06: u32 = 1 << 1;
pub const M_C11: u32 = 1 << 2;
pub const M_C12: u32 = 1 << 3;
pub const M_C15: u32 = 1 << 4;
pub const M_C17: u32 = 1 << 5;
pub const M_C03: u32 = 1 << 6;
pub const M_C07: u32 = 1 << 8;
pub const M_C08: u32 = 1 << 9;
pub const M_C10: u32 = 1 << 10;
pub const M_C13: u32 = 1 << 11;

#[derive(Clone, Debug, PartialEq, Eq)]
pub enum Mech {
    None,
    ShortTerm(Option<bool>), // Some(false) = MI, Some(true) = SHA256
    LongTerm,
}

#[derive(Clone, Debug)]
pub struct SimCfg {
    /// Some(timeout ns) = reliable transport
    pub reliable: Option<u64>,
    pub rto_ns: u64,
    pub granularity_ns: u64,
    pub rm: u32,
    pub rc: u32,
    pub mech: Mech,
    pub user: String,
    /// the OpaqueString-enforced password: what keys must be derived from (all oracles use this)
    pub password: String,
    /// the password as the application hands it to the client (may differ from the enforced form)
    pub password_raw: String,
    pub fingerprint: bool,
    pub max_transactions: usize,
}

impl SimCfg {
    pub fn describe(&self) -> String {
        format!(
            "{} mech={:?} fingerprint={} limit={}",
            match self.reliable {
                Some(t) => format!("reliable(timeout={}ns)", t),
                None => format!("unreliable(rto={}ns g={}ns rm={} rc={})", self.rto_ns, self.granularity_ns, self.rm, self.rc),
            },
            self.mech,
            self.fingerprint,
            self.max_transactions
        )
    }
}

#[derive(Clone, Debug, PartialEq, Eq)]
pub enum FailReason {
    TimedOut,
    ProtectionViolated,
    DoNotRetry,
    Other(String),
}

#[derive(Clone, Debug)]
pub enum Ev {
    Output { id: Id, bytes: Vec<u8> },
    Rto { id: Id, ns: u64 },
    Retry { id: Id },
    Failed { id: Id, reason: FailReason },
    Received { id: Id, class: u8, method: u16, nattrs: usize },
}

impl Ev {
    pub fn brief(&self) -> String {
        match self {
            Ev::Output { id, bytes } => {
                if FULL_TRACE.load(std::sync::atomic::Ordering::Relaxed) {
                    format!("Output({}, {})", short_id(id), crate::json::hex(bytes))
                } else {
                    format!("Output({}, {}b)", short_id(id), bytes.len())
                }
            }
            Ev::Rto { id, ns } => format!("Rto({}, {}ns)", short_id(id), ns),
            Ev::Retry { id } => format!("Retry({})", short_id(id)),
            Ev::Failed { id, reason } => format!("Failed({}, {:?})", short_id(id), reason),
            Ev::Received { id, class, .. } => format!("Received({}, class {})", short_id(id), class),
        }
    }
}

pub fn short_id(id: &Id) -> String {
    crate::json::hex(&id[..4])
}

#[derive(Clone, Debug, PartialEq, Eq)]
pub enum TxState {
    Awaiting,
    Final(String),
}

/// Reference model of one request (closed form, from the statement of C06).
#[derive(Clone, Debug)]
pub struct TxModel {
    pub id: Id,
    pub seq: usize,
    pub t0: u64,
    pub rto: u64,
    /// candidate expiries: S_1 .. S_{Rc-1}, D   (reliable: [D])
    pub expiries: Vec<u64>,
    pub deadline: u64,
    /// current expiry E
    pub expiry: u64,
    pub transmissions: u32,
    pub first_bytes: Vec<u8>,
    pub state: TxState,
    pub final_at_step: usize,
    /// boundary-observable events about this id after its final outcome
    pub post_final_events: u32,
    /// method asked by the application
    pub method: u16,
}

#[derive(Clone, Debug)]
pub enum Op {
    SendRequest { method: u16, app: String, buf_len: usize },
    SendIndication { method: u16, buf_len: usize },
    Recv { what: String, bytes: Vec<u8> },
    Timeout { why: String },
}

#[derive(Clone, Debug)]
pub enum OpResult {
    Sent(Id),
    SendErr(String),
    RecvOk,
    RecvErr(String),
    TimeoutDone,
    Panicked(String),
}

pub struct Step {
    pub n: usize,
    pub t: u64,
    pub op: Op,
    pub result: OpResult,
    pub events: Vec<Ev>,
    pub before: Option<VerifSnapshot>,
    pub after: Option<VerifSnapshot>,
}

/// f64 RFC 6298 reference (C15)
#[derive(Clone, Debug)]
pub struct RefRtt {
    pub configured: f64,
    pub g: f64,
    pub srtt: Option<f64>,
    pub rttvar: f64,
    pub rto: f64,
    pub last_request: Option<u64>,
}

impl RefRtt {
    fn new(rto_ns: u64, g_ns: u64) -> Self {
        RefRtt { configured: rto_ns as f64, g: g_ns as f64, srtt: None, rttvar: 0.0, rto: rto_ns as f64, last_request: None }
    }
    fn reset(&mut self) {
        self.srtt = None;
        self.rttvar = 0.0;
        self.rto = self.configured;
    }
    fn sample(&mut self, r: f64) {
        match self.srtt {
            None => {
                self.srtt = Some(r);
                self.rttvar = r / 2.0;
            }
            Some(s) => {
                self.rttvar = 0.75 * self.rttvar + 0.25 * (s - r).abs();
                self.srtt = Some(0.875 * s + 0.125 * r);
            }
        }
        self.rto = self.srtt.unwrap() + self.g.max(4.0 * self.rttvar);
    }
}

pub struct Sim {
    pub cfg: SimCfg,
    pub client: StunClient,
    base: Instant,
    pub now: u64,
    pub txs: Vec<TxModel>,
    pub index: HashMap<Id, usize>,
    pub indication_ids: Vec<Id>,
    /// controller's single timer: (named id, absolute fire time)
    pub armed: Option<(Id, u64)>,
    pub trace: Vec<String>,
    pub nsteps: usize,
    pub monitors: u32,
    pub refrtt: RefRtt,
    /// set when a zero-length or otherwise excluded RTT sample makes the f64 reference
    /// incomparable for the rest of the history
    pub rtt_incomparable: bool,
    pub dead: bool,
    /// hook for credential monitors: every output packet (first transmissions only)
    pub outputs: Vec<(Id, Vec<u8>)>,
    /// codes of the last three (operation, outcome) pairs: distinct 3-grams are counted as
    /// observed interleaving shapes
    pub recent: [u8; 3],
}

fn base_instant() -> Instant {
    // one fixed origin per process, far enough from "now" in both directions
    static BASE: std::sync::OnceLock<Instant> = std::sync::OnceLock::new();
    *BASE.get_or_init(|| Instant::now() + Duration::from_secs(1_000_000))
}

pub fn id_of(t: &TransactionId) -> Id {
    *t.as_bytes()
}

fn fail_reason(e: &StunTransactionError) -> FailReason {
    match e {
        StunTransactionError::TimedOut => FailReason::TimedOut,
        StunTransactionError::ProtectionViolated => FailReason::ProtectionViolated,
        StunTransactionError::DoNotRetry => FailReason::DoNotRetry,
        other => FailReason::Other(format!("{:?}", other)),
    }
}

impl Sim {
    pub fn new(cfg: SimCfg, monitors: u32) -> Result<Sim, String> {
        let rel = match cfg.reliable {
            Some(t) => TransportReliability::Reliable(Duration::from_nanos(t)),
            None => TransportReliability::Unreliable(RttConfig {
                rto: Duration::from_nanos(cfg.rto_ns),
                granularity: Duration::from_nanos(cfg.granularity_ns),
                rm: cfg.rm,
                rc: cfg.rc,
            }),
        };
        let mut b = StunClienteBuilder::new(rel).with_max_transactions(cfg.max_transactions);
        match &cfg.mech {
            Mech::None => {}
            Mech::ShortTerm(i) => {
                let integ = i.map(|sha| if sha { Integrity::MessageIntegritySha256 } else { Integrity::MessageIntegrity });
                b = b.with_mechanism(cfg.user.clone(), cfg.password_raw.clone(), CredentialMechanism::ShortTerm(integ));
            }
            Mech::LongTerm => {
                b = b.with_mechanism(cfg.user.clone(), cfg.password_raw.clone(), CredentialMechanism::LongTerm);
            }
        }
        if cfg.fingerprint {
            b = b.with_fingerprint();
        }
        let client = b.build().map_err(|e| format!("{}", e))?;
        let refrtt = RefRtt::new(cfg.rto_ns, cfg.granularity_ns);
        Ok(Sim {
            cfg,
            client,
            base: base_instant(),
            now: 0,
            txs: Vec::new(),
            index: HashMap::new(),
            indication_ids: Vec::new(),
            armed: None,
            trace: Vec::new(),
            nsteps: 0,
            monitors,
            refrtt,
            rtt_incomparable: false,
            dead: false,
            outputs: Vec::new(),
            recent: [0; 3],
        })
    }

    /// Buffers handed to the client are "recycled": never freshly zeroed (a third all 0xFF,
    /// a third patterned, a third zero), so anything the encoder forgets to write shows up.
    fn dirty_buffer(&self, len: usize) -> Vec<u8> {
        match self.nsteps % 3 {
            0 => vec![0xFFu8; len],
            1 => (0..len).map(|i| (i as u8).wrapping_mul(31).wrapping_add(self.nsteps as u8) | 1).collect(),
            _ => vec![0u8; len],
        }
    }

    pub fn inst(&self, ns: u64) -> Instant {
        self.base + Duration::from_nanos(ns)
    }

    pub fn ns_of(&self, i: Instant) -> i128 {
        if i >= self.base {
            (i - self.base).as_nanos() as i128
        } else {
            -((self.base - i).as_nanos() as i128)
        }
    }

    pub fn on(&self, m: u32) -> bool {
        self.monitors & m != 0
    }

    pub fn awaiting(&self) -> Vec<usize> {
        (0..self.txs.len()).filter(|i| self.txs[*i].state == TxState::Awaiting).collect()
    }

    pub fn awaiting_count(&self) -> usize {
        self.txs.iter().filter(|t| t.state == TxState::Awaiting).count()
    }

    pub fn witness(&self) -> J {
        let n = self.trace.len();
        let start = if FULL_TRACE.load(std::sync::atomic::Ordering::Relaxed) { 0 } else { n.saturating_sub(60) };
        J::obj()
            .set("config", J::s(self.cfg.describe()))
            .set("steps_total", J::u(self.nsteps))
            .set("last_steps", J::arr(self.trace[start..].iter().map(J::s)))
    }

    fn snap(&self) -> Option<VerifSnapshot> {
        Some(self.client.verif_snapshot())
    }

    fn pull_events(&mut self) -> Vec<Ev> {
        let evs = self.client.events();
        evs.into_iter()
            .map(|e| match e {
                StunClientEvent::OutputPacket(p) => {
                    let bytes = p.to_vec();
                    let mut id = [0u8; 12];
                    if bytes.len() >= 20 {
                        id.copy_from_slice(&bytes[8..20]);
                    }
                    Ev::Output { id, bytes }
                }
                StunClientEvent::RestransmissionTimeOut((id, d)) => Ev::Rto { id: id_of(&id), ns: d.as_nanos() as u64 },
                StunClientEvent::Retry(id) => Ev::Retry { id: id_of(&id) },
                StunClientEvent::TransactionFailed((id, e)) => Ev::Failed { id: id_of(&id), reason: fail_reason(&e) },
                StunClientEvent::StunMessageReceived(m) => Ev::Received {
                    id: id_of(m.transaction_id()),
                    class: crate::bridge::class_num(m.class()),
                    method: m.method().as_u16(),
                    nattrs: m.attributes().len(),
                },
            })
            .collect()
    }

    pub fn ngram(&self) -> u64 {
        crate::rng::fnv64(&[0x3C, self.recent[0], self.recent[1], self.recent[2]])
    }

    fn record(&mut self, step: &Step) {
        let opc: u8 = match &step.op {
            Op::SendRequest { .. } => 1,
            Op::SendIndication { .. } => 2,
            Op::Recv { .. } => 3,
            Op::Timeout { .. } => 4,
        };
        let resc: u8 = match &step.result {
            OpResult::Sent(_) => 0,
            OpResult::SendErr(_) => 1,
            OpResult::RecvOk => 2,
            OpResult::RecvErr(_) => 3,
            OpResult::TimeoutDone => {
                // distinguish timer calls that retransmit / fail / do nothing
                let o = step.events.iter().any(|e| matches!(e, Ev::Output { .. }));
                let f = step.events.iter().any(|e| matches!(e, Ev::Failed { .. }));
                4 + o as u8 + 2 * f as u8
            }
            OpResult::Panicked(_) => 9,
        };
        let fin = step.events.iter().any(|e| matches!(e, Ev::Retry { .. } | Ev::Failed { .. }) || matches!(e, Ev::Received { class, .. } if *class >= 2));
        self.recent = [self.recent[1], self.recent[2], opc * 20 + resc * 2 + fin as u8];
        let evs: Vec<String> = step.events.iter().map(|e| e.brief()).collect();
        let op = match &step.op {
            Op::SendRequest { method, app, buf_len } => format!("send_request(method={:#x}, app=[{}], buf={})", method, app, buf_len),
            Op::SendIndication { method, buf_len } => format!("send_indication(method={:#x}, buf={})", method, buf_len),
            Op::Recv { what, bytes } => format!("on_buffer_recv({}: {})", what, hex_trunc(bytes, if FULL_TRACE.load(std::sync::atomic::Ordering::Relaxed) { 100_000 } else { 48 })),
            Op::Timeout { why } => format!("on_timeout({})", why),
        };
        let res = match &step.result {
            OpResult::Sent(id) => format!("Ok({})", short_id(id)),
            OpResult::SendErr(e) => format!("Err({})", e),
            OpResult::RecvOk => "Ok".into(),
            OpResult::RecvErr(e) => format!("Err({})", e),
            OpResult::TimeoutDone => "()".into(),
            OpResult::Panicked(p) => format!("PANIC {}", p),
        };
        self.trace.push(format!("#{} t={}ns {} -> {} events=[{}]", step.n, step.t, op, res, evs.join(", ")));
        if self.trace.len() > 400 {
            self.trace.drain(0..200);
        }
    }

    fn panic_violation(&mut self, ctx: &mut Ctx, what: &str, p: &PanicInfo) {
        self.dead = true;
        let sig = format!("client-panic:{}:{}", what, panic_sig(p));
        let mut w = self.witness();
        w.put("panic", J::s(format!("{} at {}", p.message, p.location)));
        ctx.violation(&sig, format!("{} panicked: {} at {}", what, p.message, p.location), w);
    }

    // -----------------------------------------------------------------------------------
    // API calls

    /// send_request through the client; `buf_len` is the buffer handed over.
    pub fn send_request(&mut self, ctx: &mut Ctx, method: u16, attrs: StunAttributes, app_desc: &str, buf_len: usize) -> OpResult {
        if self.dead {
            return OpResult::Panicked("dead".into());
        }
        let before = self.snap();
        let count_before = self.awaiting_count();
        let now = self.now;
        let inst = self.inst(now);
        let m = MessageMethod::try_from(method & 0xFFF).unwrap();
        let buffer = self.dirty_buffer(buf_len);
        let r = guarded(|| self.client.send_request(m, attrs, buffer, inst));
        let result = match r {
            Err(p) => {
                self.panic_violation(ctx, "send_request", &p);
                OpResult::Panicked(p.message)
            }
            Ok(Ok(id)) => OpResult::Sent(id_of(&id)),
            Ok(Err(e)) => OpResult::SendErr(format!("{:?}", e)),
        };
        let events = if self.dead { vec![] } else { self.pull_events() };
        let after = if self.dead { None } else { self.snap() };
        let step = Step {
            n: self.nsteps,
            t: now,
            op: Op::SendRequest { method, app: app_desc.to_string(), buf_len },
            result: result.clone(),
            events,
            before,
            after,
        };
        self.nsteps += 1;
        self.record(&step);
        if !self.dead {
            self.after_send_request(ctx, &step, count_before);
        }
        result
    }

    pub fn send_indication(&mut self, ctx: &mut Ctx, method: u16, attrs: StunAttributes, buf_len: usize) -> (OpResult, Vec<Ev>) {
        if self.dead {
            return (OpResult::Panicked("dead".into()), vec![]);
        }
        let before = self.snap();
        let now = self.now;
        let m = MessageMethod::try_from(method & 0xFFF).unwrap();
        let buffer = self.dirty_buffer(buf_len);
        let r = guarded(|| self.client.send_indication(m, attrs, buffer));
        let result = match r {
            Err(p) => {
                self.panic_violation(ctx, "send_indication", &p);
                OpResult::Panicked(p.message)
            }
            Ok(Ok(id)) => OpResult::Sent(id_of(&id)),
            Ok(Err(e)) => OpResult::SendErr(format!("{:?}", e)),
        };
        let events = if self.dead { vec![] } else { self.pull_events() };
        let after = if self.dead { None } else { self.snap() };
        let step = Step { n: self.nsteps, t: now, op: Op::SendIndication { method, buf_len }, result: result.clone(), events, before, after };
        self.nsteps += 1;
        self.record(&step);
        if !self.dead {
            self.after_send_indication(ctx, &step);
        }
        (result, step.events)
    }

    pub fn recv(&mut self, ctx: &mut Ctx, what: &str, bytes: &[u8]) -> (OpResult, Vec<Ev>) {
        if self.dead {
            return (OpResult::Panicked("dead".into()), vec![]);
        }
        let before = self.snap();
        let now = self.now;
        let inst = self.inst(now);
        let r = guarded(|| self.client.on_buffer_recv(bytes, inst));
        let result = match r {
            Err(p) => {
                self.panic_violation(ctx, "on_buffer_recv", &p);
                OpResult::Panicked(p.message)
            }
            Ok(Ok(())) => OpResult::RecvOk,
            Ok(Err(e)) => OpResult::RecvErr(match e {
                StunAgentError::InternalError(s) => format!("InternalError({})", s.chars().take(80).collect::<String>()),
                other => format!("{:?}", other),
            }),
        };
        let events = if self.dead { vec![] } else { self.pull_events() };
        let after = if self.dead { None } else { self.snap() };
        let step = Step {
            n: self.nsteps,
            t: now,
            op: Op::Recv { what: what.to_string(), bytes: bytes.to_vec() },
            result: result.clone(),
            events,
            before,
            after,
        };
        self.nsteps += 1;
        self.record(&step);
        if !self.dead {
            self.after_recv(ctx, &step);
        }
        (result, step.events)
    }

    pub fn timeout(&mut self, ctx: &mut Ctx, why: &str) -> Vec<Ev> {
        if self.dead {
            return vec![];
        }
        let before = self.snap();
        let now = self.now;
        let inst = self.inst(now);
        let r = guarded(|| self.client.on_timeout(inst));
        let result = match r {
            Err(p) => {
                self.panic_violation(ctx, "on_timeout", &p);
                OpResult::Panicked(p.message)
            }
            Ok(()) => OpResult::TimeoutDone,
        };
        let events = if self.dead { vec![] } else { self.pull_events() };
        let after = if self.dead { None } else { self.snap() };
        let step = Step { n: self.nsteps, t: now, op: Op::Timeout { why: why.to_string() }, result, events, before, after };
        self.nsteps += 1;
        self.record(&step);
        if !self.dead {
            self.after_timeout(ctx, &step);
        }
        step.events
    }

    // -----------------------------------------------------------------------------------
    // model + monitors

    fn viol(&mut self, ctx: &mut Ctx, prop_mask: u32, sig: &str, detail: String) {
        if self.on(prop_mask) {
            ctx.violation(sig, detail, self.witness());
        }
    }

    /// controller: remember the latest notification
    fn controller(&mut self, events: &[Ev], now: u64) {
        for e in events {
            if let Ev::Rto { id, ns } = e {
                self.armed = Some((*id, now.saturating_add(*ns)));
            }
        }
    }

    /// expected RTO candidate list for a request sent at t0 with `rto`
    fn expiries(&self, t0: u64, rto: u64) -> Vec<u64> {
        match self.cfg.reliable {
            Some(t) => vec![t0 + t],
            None => {
                let mut v = Vec::new();
                let mut acc = t0;
                let rc = self.cfg.rc;
                for k in 0..rc.saturating_sub(1) {
                    acc = acc.saturating_add(rto.saturating_mul(1u64 << k.min(40)));
                    v.push(acc);
                }
                acc = acc.saturating_add(rto.saturating_mul(self.cfg.rm as u64));
                v.push(acc);
                v
            }
        }
    }

    /// the earliest-expiry oracle shared by C06/C11: after send_request / on_timeout the
    /// notification must be present iff something is awaiting, name an awaiting request
    /// with minimal expiry, and carry max(0, E_min - now).
    fn check_notification(&mut self, ctx: &mut Ctx, step: &Step) {
        let rtos: Vec<(Id, u64)> = step
            .events
            .iter()
            .filter_map(|e| if let Ev::Rto { id, ns } = e { Some((*id, *ns)) } else { None })
            .collect();
        let aw = self.awaiting();
        ctx.count("c11.notification-points");
        if aw.is_empty() {
            if !rtos.is_empty() {
                self.viol(ctx, M_C11, "c11:notification-with-nothing-pending", format!("{} notification(s) although no request awaits a response", rtos.len()));
            }
            return;
        }
        if rtos.len() != 1 {
            self.viol(
                ctx,
                M_C11,
                if rtos.is_empty() { "c11:notification-missing" } else { "c11:notification-duplicated" },
                format!("{} requests await a response but {} notifications were issued", aw.len(), rtos.len()),
            );
            return;
        }
        let (nid, ns) = rtos[0];
        let emin = aw.iter().map(|i| self.txs[*i].expiry).min().unwrap();
        let named = self.index.get(&nid).copied();
        match named {
            Some(i) if self.txs[i].state == TxState::Awaiting => {
                if self.txs[i].expiry != emin {
                    self.viol(
                        ctx,
                        M_C11,
                        "c11:notification-names-later-deadline",
                        format!("notification names {} (expiry {}) but the earliest pending expiry is {}", short_id(&nid), self.txs[i].expiry, emin),
                    );
                }
            }
            _ => {
                self.viol(ctx, M_C11, "c11:notification-names-non-pending", format!("notification names {} which is not awaiting a response", short_id(&nid)));
            }
        }
        let want = emin.saturating_sub(step.t);
        if ns != want {
            self.viol(
                ctx,
                M_C11,
                "c11:notification-duration",
                format!("notification gives {} ns, time remaining to the earliest pending deadline is {} ns", ns, want),
            );
        }
        ctx.count("c11.notifications-checked");
    }

    /// A structural observation on the hooked state that the eager design of today's code
    /// satisfies (one table slot and one timer entry per awaiting request, nothing else) but that
    /// no property demands: another correct design (lazy deletion, tombstones) would not.  It is
    /// therefore recorded in the evidence (counter `hook.suspicion.<kind>`, zero on today's tree)
    /// and never a verdict; if the state matters it becomes observable at the boundary, where
    /// the C05 / C06 / C11 / C12 monitors judge it.
    fn suspect(&mut self, ctx: &mut Ctx, kind: &str) {
        ctx.count(&format!("hook.suspicion.{}", kind));
    }

    /// hook observations after any step: one heap entry per awaiting request with the
    /// model's expiry; no entry / table slot for anything else
    fn check_hook_tables(&mut self, ctx: &mut Ctx, step: &Step) {
        let Some(after) = step.after.clone() else { return };
        let aw: Vec<Id> = self.awaiting().iter().map(|i| self.txs[*i].id).collect();
        let out_ids: Vec<Id> = after.outstanding.iter().map(|o| id_of(&o.0)).collect();
        // C05 / C12: table == awaiting set
        for id in &out_ids {
            if !aw.contains(id) {
                let known = self.index.contains_key(id);
                self.suspect(ctx, if known { "finished-transaction-still-in-table" } else { "unknown-transaction-in-table" });
            }
        }
        for id in &aw {
            if !out_ids.contains(id) {
                // design-independent: whatever the representation, a request that awaits a
                // response must be among the outstanding transactions the hook reports
                self.viol(ctx, M_C05 | M_C12, "hook:awaiting-transaction-missing-from-table", format!("transaction {} awaits a response but is not in the table", short_id(id)));
            }
        }
        if out_ids.len() != aw.len() {
            self.suspect(ctx, "table-size-differs-from-unfinished-count");
        }
        // C11 / C05 / C06: heap entries
        let mut seen: HashMap<Id, usize> = HashMap::new();
        for (tid, armed_at, dur) in &after.timeouts {
            let id = id_of(tid);
            *seen.entry(id).or_insert(0) += 1;
            let exp = self.ns_of(*armed_at) + dur.as_nanos() as i128;
            match self.index.get(&id) {
                Some(i) if self.txs[*i].state == TxState::Awaiting => {
                    if exp != self.txs[*i].expiry as i128 {
                        self.suspect(ctx, "pending-expiry-differs-from-schedule");
                    }
                }
                _ => {
                    self.suspect(ctx, "timeout-entry-for-finished-transaction");
                }
            }
        }
        for id in &aw {
            let n = seen.get(id).copied().unwrap_or(0);
            if n != 1 {
                if n == 0 {
                    // design-independent as well: no pending deadline at all for an awaiting request
                    self.viol(ctx, M_C11 | M_C05 | M_C03, "hook:awaiting-request-without-timeout-entry", format!("awaiting request {} has no timeout entry", short_id(id)));
                } else {
                    self.suspect(ctx, "several-timeout-entries-per-request");
                }
            }
        }
        ctx.count("hook.table-checks");
    }

    /// events that are never legal for an id that is not awaiting (C05)
    fn check_silence(&mut self, ctx: &mut Ctx, step: &Step, allow_new: Option<Id>) {
        for e in step.events.clone() {
            let id = match &e {
                Ev::Output { id, .. } | Ev::Rto { id, .. } | Ev::Retry { id } | Ev::Failed { id, .. } | Ev::Received { id, .. } => *id,
            };
            if Some(id) == allow_new {
                continue;
            }
            // received indications carry foreign ids
            if let Ev::Received { class: 1, .. } = e {
                continue;
            }
            if self.indication_ids.contains(&id) {
                if !matches!(e, Ev::Output { .. }) {
                    self.viol(ctx, M_C05, "c05:event-for-indication-id", format!("{} names the id of an indication", e.brief()));
                }
                continue;
            }
            match self.index.get(&id).copied() {
                None => {
                    self.viol(ctx, M_C05, &format!("c05:event-for-unknown-id:{}", ev_kind(&e)), format!("{} names an id the client never sent a request with", e.brief()));
                }
                Some(i) => {
                    if let TxState::Final(how) = self.txs[i].state.clone() {
                        if self.txs[i].final_at_step != step.n {
                            self.txs[i].post_final_events += 1;
                            self.viol(
                                ctx,
                                M_C05,
                                &format!("c05:event-after-final-outcome:{}-after-{}", ev_kind(&e), how),
                                format!("{} for a transaction that already ended with {}", e.brief(), how),
                            );
                        }
                    }
                }
            }
        }
    }

    fn finalize(&mut self, ctx: &mut Ctx, i: usize, how: &str, step_n: usize) {
        if let TxState::Final(prev) = self.txs[i].state.clone() {
            let id = self.txs[i].id;
            self.viol(
                ctx,
                M_C05,
                &format!("c05:second-final-outcome:{}-after-{}", how, prev),
                format!("transaction {} gets a second final outcome ({}) after {}", short_id(&id), how, prev),
            );
            return;
        }
        self.txs[i].state = TxState::Final(how.to_string());
        self.txs[i].final_at_step = step_n;
        ctx.count(&format!("final.{}", how));
    }

    fn after_send_request(&mut self, ctx: &mut Ctx, step: &Step, count_before: usize) {
        let limit = self.cfg.max_transactions;
        match &step.result {
            OpResult::Sent(id) => {
                let id = *id;
                if self.on(M_C12) && count_before >= limit {
                    self.viol(ctx, M_C12, "c12:request-accepted-at-limit", format!("send_request accepted although {} requests are unfinished (limit {})", count_before, limit));
                }
                if self.index.contains_key(&id) || self.indication_ids.contains(&id) {
                    self.viol(ctx, M_C05 | M_C13, "c05:transaction-id-reused", format!("transaction id {} was used before", short_id(&id)));
                }
                // C15 reference: staleness then RTO in force
                if self.cfg.reliable.is_none() {
                    if let Some(last) = self.refrtt.last_request {
                        if step.t.saturating_sub(last) > 600_000_000_000 {
                            self.refrtt.reset();
                            ctx.count("c15.stale-resets");
                        }
                    }
                    self.refrtt.last_request = Some(step.t);
                }
                // RTO actually in force (hook) - exact value used by the schedule model
                let rto = match (&step.after, self.cfg.reliable) {
                    (_, Some(t)) => t,
                    (Some(s), None) => s.rtt.map(|r| r.0.as_nanos() as u64).unwrap_or(self.cfg.rto_ns),
                    (None, None) => self.cfg.rto_ns,
                };
                if self.cfg.reliable.is_none() && self.on(M_C15) && !self.rtt_incomparable {
                    let want = self.refrtt.rto;
                    let tol = 1e-5 * want + 1000.0;
                    ctx.count("c15.rto-compared");
                    if (rto as f64 - want).abs() > tol {
                        self.viol(
                            ctx,
                            M_C15,
                            "c15:rto-differs-from-rfc6298",
                            format!("RTO in force for the new request is {} ns, RFC 6298 reference gives {:.1} ns (tolerance {:.1})", rto, want, tol),
                        );
                    }
                }
                let expiries = self.expiries(step.t, rto);
                let deadline = *expiries.last().unwrap();
                let first_bytes = step
                    .events
                    .iter()
                    .find_map(|e| if let Ev::Output { id: oid, bytes } = e { if *oid == id { Some(bytes.clone()) } else { None } } else { None })
                    .unwrap_or_default();
                if first_bytes.is_empty() {
                    self.viol(ctx, M_C05 | M_C06, "send:no-output-packet", "send_request returned Ok but no OutputPacket for its id was emitted".into());
                }
                let outs = step.events.iter().filter(|e| matches!(e, Ev::Output { .. })).count();
                if outs != 1 {
                    self.viol(ctx, M_C06, "c06:send-request-output-count", format!("send_request emitted {} packets", outs));
                }
                let method = match &step.op {
                    Op::SendRequest { method, .. } => *method,
                    _ => 0,
                };
                self.outputs.push((id, first_bytes.clone()));
                let seq = self.txs.len();
                self.txs.push(TxModel {
                    id,
                    seq,
                    t0: step.t,
                    rto,
                    expiry: expiries[0],
                    expiries,
                    deadline,
                    transmissions: 1,
                    first_bytes,
                    state: TxState::Awaiting,
                    final_at_step: usize::MAX,
                    post_final_events: 0,
                    method,
                });
                self.index.insert(id, seq);
                ctx.count("requests.sent");
                self.check_silence(ctx, step, Some(id));
                // C15 boundary cross-check: the notified duration of a request sent while
                // nothing else is outstanding is the RTO itself
                if self.awaiting_count() == 1 && self.cfg.reliable.is_none() {
                    if let Some(ns) = step.events.iter().find_map(|e| if let Ev::Rto { ns, .. } = e { Some(*ns) } else { None }) {
                        let first = if self.cfg.rc == 1 { rto.saturating_mul(self.cfg.rm as u64) } else { rto };
                        if ns != first && self.on(M_C06 | M_C15) {
                            self.viol(ctx, M_C06 | M_C15, "c06:first-interval-differs-from-rto", format!("first notified interval {} ns, RTO in force {} ns", ns, first));
                        }
                    }
                }
            }
            OpResult::SendErr(e) => {
                let is_max = e.contains("MaxOutstandingRequestsReached");
                if is_max {
                    ctx.count("requests.refused-at-limit");
                    if count_before < limit {
                        self.viol(ctx, M_C12, "c12:request-refused-below-limit", format!("send_request refused although only {} of {} slots are in use", count_before, limit));
                    }
                } else {
                    ctx.count("requests.other-error");
                    if count_before >= limit {
                        self.viol(ctx, M_C12, "c12:limit-error-not-reported", format!("{} unfinished requests at limit {} but the error is {}", count_before, limit, e));
                    }
                }
                if !step.events.is_empty() {
                    self.viol(ctx, M_C12, "c12:refused-request-produced-events", format!("a refused send_request produced {} event(s)", step.events.len()));
                }
                if step.before != step.after {
                    self.viol(ctx, M_C12, "c12:refused-request-changed-state", "hook snapshot differs before/after a refused send_request".into());
                }
            }
            _ => {}
        }
        self.controller(&step.events.clone(), step.t);
        if matches!(step.result, OpResult::Sent(_)) {
            self.check_notification(ctx, step);
        }
        self.check_hook_tables(ctx, step);
    }

    fn after_send_indication(&mut self, ctx: &mut Ctx, step: &Step) {
        if let OpResult::Sent(id) = &step.result {
            self.indication_ids.push(*id);
            ctx.count("indications.sent");
            if let Some(Ev::Output { bytes, .. }) = step.events.first() {
                self.outputs.push((*id, bytes.clone()));
            }
        }
        for e in &step.events {
            if !matches!(e, Ev::Output { .. }) {
                let b = e.brief();
                self.viol(ctx, M_C05 | M_C12, "indication:unexpected-event", format!("send_indication produced {}", b));
                break;
            }
        }
        if self.on(M_C12) {
            if let (Some(b), Some(a)) = (&step.before, &step.after) {
                if b.outstanding != a.outstanding || b.timeouts != a.timeouts {
                    self.viol(ctx, M_C12, "c12:indication-changed-capacity", "send_indication changed the transaction table or timers".into());
                }
            }
        }
        self.check_hook_tables(ctx, step);
    }

    fn after_recv(&mut self, ctx: &mut Ctx, step: &Step) {
        let rejected = matches!(step.result, OpResult::RecvErr(_));
        // final events
        for e in step.events.clone() {
            let (id, how) = match &e {
                Ev::Received { id, class, .. } if *class >= 2 => (*id, "delivered"),
                Ev::Retry { id } => (*id, "retry"),
                Ev::Failed { id, reason } => (
                    *id,
                    match reason {
                        FailReason::ProtectionViolated => "protection-violated",
                        FailReason::DoNotRetry => "do-not-retry",
                        FailReason::TimedOut => "timed-out",
                        FailReason::Other(_) => "other-failure",
                    },
                ),
                _ => continue,
            };
            match self.index.get(&id).copied() {
                Some(i) => {
                    let was_awaiting = self.txs[i].state == TxState::Awaiting;
                    if !was_awaiting && how == "delivered" {
                        ctx.count("c05.late-response-delivered");
                    }
                    self.finalize(ctx, i, how, step.n);
                    // C15: RTT sample for transactions completed by a response without retransmission
                    if was_awaiting && self.cfg.reliable.is_none() && self.txs[i].transmissions == 1 {
                        let r = step.t.saturating_sub(self.txs[i].t0);
                        if r == 0 {
                            // zero-length response times are excluded by the property
                            self.rtt_incomparable = true;
                        } else {
                            self.refrtt.sample(r as f64);
                            ctx.count("c15.samples");
                            ctx.count(&format!("c15.samples.completed-by.{}", how));
                        }
                    }
                }
                None => {
                    if !self.indication_ids.contains(&id) {
                        self.viol(ctx, M_C05, &format!("c05:final-event-for-unknown-id:{}", how), format!("{} for an id no request was sent with", e.brief()));
                    }
                }
            }
        }
        self.check_silence(ctx, step, None);
        // Today on_buffer_recv emits neither packets nor timer notifications, but no property says
        // it must not: a notification naming a request that still awaits a response is harmless
        // (check_silence above has already judged any that names a finished one).  A packet emitted
        // here would put the transmission model out of step, so such a history is not judged any
        // further (counted; the minimum-relevance counters notice if that became the rule).
        if step.events.iter().any(|e| matches!(e, Ev::Rto { .. })) {
            ctx.count("recv.suspicion.timer-notification-after-on-buffer-recv");
        }
        if step.events.iter().any(|e| matches!(e, Ev::Output { .. })) {
            ctx.count("recv.suspicion.packet-emitted-by-on-buffer-recv:history-abandoned");
            self.dead = true;
        }
        if rejected {
            ctx.count("recv.rejected");
            if !step.events.is_empty() {
                self.viol(ctx, M_C17 | M_C05, "c17:rejected-buffer-produced-events", format!("on_buffer_recv returned Err but produced {} event(s)", step.events.len()));
            }
            if self.on(M_C17) {
                self.check_rejected_unchanged(ctx, step);
            }
        } else {
            ctx.count("recv.accepted");
        }
        self.check_hook_tables(ctx, step);
    }

    /// C17 oracle A: snapshot equality around a rejected buffer, except the documented marker
    fn check_rejected_unchanged(&mut self, ctx: &mut Ctx, step: &Step) {
        let (Some(b), Some(a)) = (&step.before, &step.after) else { return };
        ctx.count("c17.snapshots-compared");
        let mut diffs = Vec::new();
        if b.outstanding != a.outstanding {
            diffs.push("outstanding-requests");
        }
        if b.timeouts != a.timeouts {
            diffs.push("pending-timeouts");
        }
        if b.rtt != a.rtt {
            diffs.push("rtt-estimate");
        }
        if b.last_request != a.last_request {
            diffs.push("last-request-instant");
        }
        if b.cred_state != a.cred_state {
            diffs.push("credential-state");
        }
        if b.max_transactions != a.max_transactions {
            diffs.push("capacity");
        }
        if b.violated != a.violated {
            // allowed: exactly the id of this buffer is added, when it is a response for an
            // outstanding request on unreliable transport with a mechanism configured
            let bytes = match &step.op {
                Op::Recv { bytes, .. } => bytes.clone(),
                _ => vec![],
            };
            let mut id = [0u8; 12];
            if bytes.len() >= 20 {
                id.copy_from_slice(&bytes[8..20]);
            }
            let class = if bytes.len() >= 2 { wire::split_msg_type(u16::from_be_bytes([bytes[0], bytes[1]])).1 } else { 0 };
            let added: Vec<Id> = a.violated.iter().map(id_of).filter(|x| !b.violated.iter().any(|y| id_of(y) == *x)).collect();
            let removed = b.violated.iter().filter(|x| !a.violated.contains(x)).count();
            let outstanding = self.index.get(&id).map(|i| self.txs[*i].state == TxState::Awaiting).unwrap_or(false);
            let ok = removed == 0
                && added == vec![id]
                && class >= 2
                && outstanding
                && self.cfg.reliable.is_none()
                && self.cfg.mech != Mech::None;
            if ok {
                ctx.count("c17.marker-set");
            } else {
                diffs.push("protection-violated-marker");
            }
        }
        if !diffs.is_empty() {
            let what = match &step.op {
                Op::Recv { what, .. } => what.clone(),
                _ => String::new(),
            };
            let kind: String = what.split(':').next().unwrap_or("").to_string();
            self.viol(
                ctx,
                M_C17,
                &format!("c17:rejected-buffer-changed:{}", diffs.join("+")),
                format!("a rejected buffer ({}) changed: {} (before: {:?} ; after: {:?})", kind, diffs.join(", "), trim_snap(b), trim_snap(a)),
            );
        }
    }

    fn after_timeout(&mut self, ctx: &mut Ctx, step: &Step) {
        let now = step.t;
        // expectation per awaiting request
        let aw = self.awaiting();
        let mut expected_retx: Vec<usize> = Vec::new();
        let mut expected_fail: Vec<usize> = Vec::new();
        for i in aw {
            let t = &self.txs[i];
            if t.expiry <= now {
                match t.expiries.iter().find(|e| **e > now) {
                    Some(_) => expected_retx.push(i),
                    None => expected_fail.push(i),
                }
            }
        }
        // observed
        let mut outs: HashMap<Id, Vec<Vec<u8>>> = HashMap::new();
        let mut fails: HashMap<Id, Vec<FailReason>> = HashMap::new();
        for e in &step.events {
            match e {
                Ev::Output { id, bytes } => outs.entry(*id).or_default().push(bytes.clone()),
                Ev::Failed { id, reason } => fails.entry(*id).or_default().push(reason.clone()),
                Ev::Rto { .. } => {}
                other => {
                    let b = other.brief();
                    self.viol(ctx, M_C05 | M_C06, "timeout:unexpected-event-kind", format!("on_timeout produced {}", b));
                }
            }
        }
        self.check_silence(ctx, step, None);
        for i in expected_retx.clone() {
            let id = self.txs[i].id;
            let n = outs.get(&id).map(|v| v.len()).unwrap_or(0);
            let failed = fails.contains_key(&id);
            if failed {
                let (d, t0) = (self.txs[i].deadline, self.txs[i].t0);
                self.viol(ctx, M_C06, "c06:failed-before-deadline", format!("request {} (t0={}) reported failed at {} but its deadline is {}", short_id(&id), t0, now, d));
                self.finalize(ctx, i, "timed-out-early", step.n);
                continue;
            }
            if n != 1 {
                self.viol(
                    ctx,
                    M_C06,
                    if n == 0 { "c06:retransmission-missed" } else { "c06:retransmission-doubled" },
                    format!("request {} expired at {} (now {}): expected exactly one retransmission, saw {}", short_id(&id), self.txs[i].expiry, now, n),
                );
            }
            if n >= 1 {
                let same = outs[&id].iter().all(|b| *b == self.txs[i].first_bytes);
                if !same {
                    self.viol(ctx, M_C06 | M_C13, "c06:retransmission-bytes-differ", format!("retransmission of {} is not byte-identical to the first transmission", short_id(&id)));
                }
                self.txs[i].transmissions += n as u32;
                ctx.count("c06.retransmissions");
                if self.txs[i].transmissions > self.cfg.rc.max(1) && self.cfg.reliable.is_none() {
                    let t = self.txs[i].transmissions;
                    self.viol(ctx, M_C06, "c06:more-than-rc-transmissions", format!("request {} transmitted {} times, Rc = {}", short_id(&id), t, self.cfg.rc));
                }
                if self.cfg.reliable.is_some() {
                    self.viol(ctx, M_C06, "c06:retransmission-on-reliable-transport", format!("request {} retransmitted on a reliable transport", short_id(&id)));
                }
            }
            let next = *self.txs[i].expiries.iter().find(|e| **e > now).unwrap();
            if self.txs[i].expiries.iter().filter(|e| **e <= now).count() > 1 {
                ctx.count("c06.late-call-skipped-slots");
            }
            self.txs[i].expiry = next;
        }
        for i in expected_fail.clone() {
            let id = self.txs[i].id;
            match fails.get(&id) {
                Some(rs) => {
                    let how = match rs[0] {
                        FailReason::ProtectionViolated => "protection-violated-on-timeout",
                        FailReason::TimedOut => "timed-out",
                        _ => "other-failure",
                    };
                    self.finalize(ctx, i, how, step.n);
                    for _ in 1..rs.len() {
                        self.finalize(ctx, i, how, step.n);
                    }
                    ctx.count("c06.deadline-failures");
                }
                None => {
                    let d = self.txs[i].deadline;
                    self.viol(ctx, M_C06 | M_C11, "c06:no-failure-at-deadline", format!("timer call at {} >= deadline {} of request {} but no failure was reported", now, d, short_id(&id)));
                }
            }
            if outs.contains_key(&id) {
                self.viol(ctx, M_C06 | M_C05, "c06:transmission-at-or-after-deadline", format!("request {} was transmitted at {} which is at/after its deadline", short_id(&id), now));
            }
        }
        // anything observed for requests that were not due
        let due: Vec<Id> = expected_retx.iter().chain(expected_fail.iter()).map(|i| self.txs[*i].id).collect();
        for (id, v) in &outs {
            if !due.contains(id) {
                if let Some(i) = self.index.get(id).copied() {
                    if self.txs[i].state == TxState::Awaiting {
                        let e = self.txs[i].expiry;
                        self.viol(ctx, M_C06, "c06:transmission-before-slot", format!("request {} transmitted {} time(s) at {} but its next slot is {}", short_id(id), v.len(), now, e));
                        self.txs[i].transmissions += v.len() as u32;
                    }
                }
            }
        }
        for (id, _) in &fails {
            if !due.contains(id) {
                if let Some(i) = self.index.get(id).copied() {
                    if self.txs[i].state == TxState::Awaiting {
                        let (d, e) = (self.txs[i].deadline, self.txs[i].expiry);
                        self.viol(ctx, M_C06, "c06:failed-before-deadline", format!("request {} failed at {} (pending expiry {}, deadline {})", short_id(id), now, e, d));
                        self.finalize(ctx, i, "timed-out-early", step.n);
                    }
                }
            }
        }
        ctx.count("timer-calls");
        self.armed = None;
        self.controller(&step.events.clone(), now);
        self.check_notification(ctx, step);
        self.check_hook_tables(ctx, step);
    }

    /// abstract state hash for evidence: (cred state tag, #awaiting, transmissions per awaiting)
    pub fn abstract_state(&self) -> u64 {
        let mut v: Vec<u8> = Vec::new();
        v.push(self.awaiting_count() as u8);
        for i in self.awaiting() {
            v.push(self.txs[i].transmissions as u8);
        }
        v.push(self.txs.len().min(255) as u8);
        let s = self.client.verif_snapshot();
        let tag = s.cred_state.split("params=").next().unwrap_or("").len() as u8;
        v.push(tag);
        v.push(s.violated.len() as u8);
        v.push(s.cred_state.contains("SubsequentRequest") as u8 + 2 * s.cred_state.contains("Retry") as u8);
        crate::rng::fnv64(&v)
    }
}

fn ev_kind(e: &Ev) -> &'static str {
    match e {
        Ev::Output { .. } => "packet",
        Ev::Rto { .. } => "timer",
        Ev::Retry { .. } => "retry",
        Ev::Failed { .. } => "failure",
        Ev::Received { .. } => "delivery",
    }
}

fn trim_snap(s: &VerifSnapshot) -> String {
    let t = format!(
        "outstanding={} timeouts={} rtt={:?} violated={} cred={}",
        s.outstanding.len(),
        s.timeouts.len(),
        s.rtt,
        s.violated.len(),
        s.cred_state
    );
    t.chars().take(500).collect()
}
