//! Independent reference STUN codec, written from the text of RFC 8489 / 8445 / 8656 /
//! 5780 / 8016.  Logical model (`LMsg`, `LAttr`), value layouts, TLV builder with
//! controllable *ignorable* bits (padding bytes, reserved fields), strict TLV parser,
//! message-integrity / fingerprint computation with the length-adjustment rule.

use super::hash;
use std::net::{IpAddr, Ipv4Addr, Ipv6Addr, SocketAddr};

pub const COOKIE: u32 = 0x2112_A442;
pub const FP_XOR: u32 = 0x5354_554e;

pub const T_MAPPED_ADDRESS: u16 = 0x0001;
pub const T_CHANGE_REQUEST: u16 = 0x0003;
pub const T_USERNAME: u16 = 0x0006;
pub const T_MESSAGE_INTEGRITY: u16 = 0x0008;
pub const T_ERROR_CODE: u16 = 0x0009;
pub const T_UNKNOWN_ATTRIBUTES: u16 = 0x000A;
pub const T_CHANNEL_NUMBER: u16 = 0x000C;
pub const T_LIFETIME: u16 = 0x000D;
pub const T_XOR_PEER_ADDRESS: u16 = 0x0012;
pub const T_DATA: u16 = 0x0013;
pub const T_REALM: u16 = 0x0014;
pub const T_NONCE: u16 = 0x0015;
pub const T_XOR_RELAYED_ADDRESS: u16 = 0x0016;
pub const T_REQUESTED_ADDRESS_FAMILY: u16 = 0x0017;
pub const T_EVEN_PORT: u16 = 0x0018;
pub const T_REQUESTED_TRANSPORT: u16 = 0x0019;
pub const T_DONT_FRAGMENT: u16 = 0x001A;
pub const T_MESSAGE_INTEGRITY_SHA256: u16 = 0x001C;
pub const T_PASSWORD_ALGORITHM: u16 = 0x001D;
pub const T_USERHASH: u16 = 0x001E;
pub const T_XOR_MAPPED_ADDRESS: u16 = 0x0020;
pub const T_RESERVATION_TOKEN: u16 = 0x0022;
pub const T_PRIORITY: u16 = 0x0024;
pub const T_USE_CANDIDATE: u16 = 0x0025;
pub const T_PADDING: u16 = 0x0026;
pub const T_RESPONSE_PORT: u16 = 0x0027;
pub const T_ADDITIONAL_ADDRESS_FAMILY: u16 = 0x8000;
pub const T_ADDRESS_ERROR_CODE: u16 = 0x8001;
pub const T_PASSWORD_ALGORITHMS: u16 = 0x8002;
pub const T_ICMP: u16 = 0x8004;
pub const T_SOFTWARE: u16 = 0x8022;
pub const T_ALTERNATE_SERVER: u16 = 0x8023;
pub const T_FINGERPRINT: u16 = 0x8028;
pub const T_ICE_CONTROLLED: u16 = 0x8029;
pub const T_ICE_CONTROLLING: u16 = 0x802A;
pub const T_RESPONSE_ORIGIN: u16 = 0x802B;
pub const T_OTHER_ADDRESS: u16 = 0x802C;
pub const T_MOBILITY_TICKET: u16 = 0x8030;

/// All type codes the library is expected to understand (38 kinds).
pub const KNOWN_TYPES: [u16; 38] = [
    T_MAPPED_ADDRESS,
    T_CHANGE_REQUEST,
    T_USERNAME,
    T_MESSAGE_INTEGRITY,
    T_ERROR_CODE,
    T_UNKNOWN_ATTRIBUTES,
    T_CHANNEL_NUMBER,
    T_LIFETIME,
    T_XOR_PEER_ADDRESS,
    T_DATA,
    T_REALM,
    T_NONCE,
    T_XOR_RELAYED_ADDRESS,
    T_REQUESTED_ADDRESS_FAMILY,
    T_EVEN_PORT,
    T_REQUESTED_TRANSPORT,
    T_DONT_FRAGMENT,
    T_MESSAGE_INTEGRITY_SHA256,
    T_PASSWORD_ALGORITHM,
    T_USERHASH,
    T_XOR_MAPPED_ADDRESS,
    T_RESERVATION_TOKEN,
    T_PRIORITY,
    T_USE_CANDIDATE,
    T_PADDING,
    T_RESPONSE_PORT,
    T_ADDITIONAL_ADDRESS_FAMILY,
    T_ADDRESS_ERROR_CODE,
    T_PASSWORD_ALGORITHMS,
    T_ICMP,
    T_SOFTWARE,
    T_ALTERNATE_SERVER,
    T_FINGERPRINT,
    T_ICE_CONTROLLED,
    T_ICE_CONTROLLING,
    T_RESPONSE_ORIGIN,
    T_OTHER_ADDRESS,
    T_MOBILITY_TICKET,
];

/// Message class numbers (C1 C0).
pub const CLASS_REQUEST: u8 = 0;
pub const CLASS_INDICATION: u8 = 1;
pub const CLASS_SUCCESS: u8 = 2;
pub const CLASS_ERROR: u8 = 3;

/// RFC 8489 figure 3: M11..M7 | C1 | M6..M4 | C0 | M3..M0 in the low 14 bits.
pub fn msg_type(method: u16, class: u8) -> u16 {
    let m = method & 0x0FFF;
    let c = (class & 3) as u16;
    (m & 0x000F) | ((c & 1) << 4) | ((m & 0x0070) << 1) | ((c & 2) << 7) | ((m & 0x0F80) << 2)
}

pub fn split_msg_type(t: u16) -> (u16, u8) {
    let t = t & 0x3FFF;
    let c0 = (t >> 4) & 1;
    let c1 = (t >> 8) & 1;
    let m = (t & 0x000F) | ((t >> 1) & 0x0070) | ((t >> 2) & 0x0F80);
    (m, ((c1 << 1) | c0) as u8)
}

/// How a long-term / short-term key is derived (RFC 8489 9.1.1, 9.2.2, 18.5.1).
#[derive(Clone, Debug, PartialEq, Eq)]
pub enum KeySpec {
    ShortTerm { password: String },
    /// alg: 1 = MD5, 2 = SHA-256
    LongTerm { user: String, realm: String, password: String, alg: u16 },
}

impl KeySpec {
    /// Reference key bytes. Strings are drawn from a PRECIS-stable alphabet by the
    /// generators, so OpaqueString processing is the identity (stated assumption).
    pub fn key_bytes(&self) -> Vec<u8> {
        match self {
            KeySpec::ShortTerm { password } => password.as_bytes().to_vec(),
            KeySpec::LongTerm { user, realm, password, alg } => {
                let s = format!("{}:{}:{}", user, realm, password);
                if *alg == 2 {
                    hash::sha256(s.as_bytes()).to_vec()
                } else {
                    hash::md5(s.as_bytes()).to_vec()
                }
            }
        }
    }
}

#[derive(Clone, Debug, PartialEq, Eq)]
pub enum LAttr {
    MappedAddress(SocketAddr),
    AlternateServer(SocketAddr),
    XorMappedAddress(SocketAddr),
    ErrorCode { code: u16, reason: String },
    UserName(String),
    /// `text` = the value the attribute object holds (what goes on the wire);
    /// `source` = the constructor argument it was built from (quoted-string trimming
    /// may make them differ)
    Realm { text: String, source: String },
    Nonce { text: String, source: String },
    Software(String),
    PasswordAlgorithm { alg: u16, params: Vec<u8> },
    PasswordAlgorithms(Vec<(u16, Vec<u8>)>),
    UnknownAttributes(Vec<u16>),
    UserHash { user: String, realm: String },
    // ICE
    IceControlled(u64),
    IceControlling(u64),
    Priority(u32),
    UseCandidate,
    // TURN
    ChannelNumber(u16),
    LifeTime(u32),
    XorPeerAddress(SocketAddr),
    XorRelayedAddress(SocketAddr),
    Data(Vec<u8>),
    RequestedAddressFamily(u8),
    EvenPort(bool),
    DontFragment,
    RequestedTransport(u8),
    AdditionalAddressFamily(u8),
    ReservationToken([u8; 8]),
    AddressErrorCode { family: u8, code: u16, reason: String },
    Icmp { typ: u8, code: u16, data: [u8; 4] },
    // mobility
    MobilityTicket(Vec<u8>),
    // discovery
    ChangeRequest { ip: bool, port: bool },
    OtherAddress(SocketAddr),
    Padding(String),
    ResponseOrigin(SocketAddr),
    ResponsePort(u16),
    // integrity / fingerprint (value computed from the message and the key)
    MessageIntegrity,
    MessageIntegritySha256,
    Fingerprint,
    /// Attribute type the library does not know (decode direction only).
    Unknown { typ: u16, value: Vec<u8> },
}

pub const KIND_NAMES: [&str; 39] = [
    "MappedAddress",
    "AlternateServer",
    "XorMappedAddress",
    "ErrorCode",
    "UserName",
    "Realm",
    "Nonce",
    "Software",
    "PasswordAlgorithm",
    "PasswordAlgorithms",
    "UnknownAttributes",
    "UserHash",
    "IceControlled",
    "IceControlling",
    "Priority",
    "UseCandidate",
    "ChannelNumber",
    "LifeTime",
    "XorPeerAddress",
    "XorRelayedAddress",
    "Data",
    "RequestedAddressFamily",
    "EvenPort",
    "DontFragment",
    "RequestedTransport",
    "AdditionalAddressFamily",
    "ReservationToken",
    "AddressErrorCode",
    "Icmp",
    "MobilityTicket",
    "ChangeRequest",
    "OtherAddress",
    "Padding",
    "ResponseOrigin",
    "ResponsePort",
    "MessageIntegrity",
    "MessageIntegritySha256",
    "Fingerprint",
    "Unknown",
];

impl LAttr {
    pub fn realm(text: &str) -> LAttr {
        LAttr::Realm { text: text.to_string(), source: text.to_string() }
    }
    pub fn nonce(text: &str) -> LAttr {
        LAttr::Nonce { text: text.to_string(), source: text.to_string() }
    }

    pub fn kind(&self) -> usize {
        use LAttr::*;
        match self {
            MappedAddress(_) => 0,
            AlternateServer(_) => 1,
            XorMappedAddress(_) => 2,
            ErrorCode { .. } => 3,
            UserName(_) => 4,
            Realm { .. } => 5,
            Nonce { .. } => 6,
            Software(_) => 7,
            PasswordAlgorithm { .. } => 8,
            PasswordAlgorithms(_) => 9,
            UnknownAttributes(_) => 10,
            UserHash { .. } => 11,
            IceControlled(_) => 12,
            IceControlling(_) => 13,
            Priority(_) => 14,
            UseCandidate => 15,
            ChannelNumber(_) => 16,
            LifeTime(_) => 17,
            XorPeerAddress(_) => 18,
            XorRelayedAddress(_) => 19,
            Data(_) => 20,
            RequestedAddressFamily(_) => 21,
            EvenPort(_) => 22,
            DontFragment => 23,
            RequestedTransport(_) => 24,
            AdditionalAddressFamily(_) => 25,
            ReservationToken(_) => 26,
            AddressErrorCode { .. } => 27,
            Icmp { .. } => 28,
            MobilityTicket(_) => 29,
            ChangeRequest { .. } => 30,
            OtherAddress(_) => 31,
            Padding(_) => 32,
            ResponseOrigin(_) => 33,
            ResponsePort(_) => 34,
            MessageIntegrity => 35,
            MessageIntegritySha256 => 36,
            Fingerprint => 37,
            Unknown { .. } => 38,
        }
    }

    pub fn kind_name(&self) -> &'static str {
        KIND_NAMES[self.kind()]
    }

    pub fn type_code(&self) -> u16 {
        use LAttr::*;
        match self {
            MappedAddress(_) => T_MAPPED_ADDRESS,
            AlternateServer(_) => T_ALTERNATE_SERVER,
            XorMappedAddress(_) => T_XOR_MAPPED_ADDRESS,
            ErrorCode { .. } => T_ERROR_CODE,
            UserName(_) => T_USERNAME,
            Realm { .. } => T_REALM,
            Nonce { .. } => T_NONCE,
            Software(_) => T_SOFTWARE,
            PasswordAlgorithm { .. } => T_PASSWORD_ALGORITHM,
            PasswordAlgorithms(_) => T_PASSWORD_ALGORITHMS,
            UnknownAttributes(_) => T_UNKNOWN_ATTRIBUTES,
            UserHash { .. } => T_USERHASH,
            IceControlled(_) => T_ICE_CONTROLLED,
            IceControlling(_) => T_ICE_CONTROLLING,
            Priority(_) => T_PRIORITY,
            UseCandidate => T_USE_CANDIDATE,
            ChannelNumber(_) => T_CHANNEL_NUMBER,
            LifeTime(_) => T_LIFETIME,
            XorPeerAddress(_) => T_XOR_PEER_ADDRESS,
            XorRelayedAddress(_) => T_XOR_RELAYED_ADDRESS,
            Data(_) => T_DATA,
            RequestedAddressFamily(_) => T_REQUESTED_ADDRESS_FAMILY,
            EvenPort(_) => T_EVEN_PORT,
            DontFragment => T_DONT_FRAGMENT,
            RequestedTransport(_) => T_REQUESTED_TRANSPORT,
            AdditionalAddressFamily(_) => T_ADDITIONAL_ADDRESS_FAMILY,
            ReservationToken(_) => T_RESERVATION_TOKEN,
            AddressErrorCode { .. } => T_ADDRESS_ERROR_CODE,
            Icmp { .. } => T_ICMP,
            MobilityTicket(_) => T_MOBILITY_TICKET,
            ChangeRequest { .. } => T_CHANGE_REQUEST,
            OtherAddress(_) => T_OTHER_ADDRESS,
            Padding(_) => T_PADDING,
            ResponseOrigin(_) => T_RESPONSE_ORIGIN,
            ResponsePort(_) => T_RESPONSE_PORT,
            MessageIntegrity => T_MESSAGE_INTEGRITY,
            MessageIntegritySha256 => T_MESSAGE_INTEGRITY_SHA256,
            Fingerprint => T_FINGERPRINT,
            Unknown { typ, .. } => *typ,
        }
    }

    pub fn is_tail(&self) -> bool {
        matches!(self, LAttr::MessageIntegrity | LAttr::MessageIntegritySha256 | LAttr::Fingerprint)
    }
}

#[derive(Clone, Debug, PartialEq, Eq)]
pub struct LMsg {
    pub method: u16,
    pub class: u8,
    pub txid: [u8; 12],
    pub attrs: Vec<LAttr>,
    /// key used by MessageIntegrity / MessageIntegritySha256 attributes of this message
    pub key: Option<KeySpec>,
}

/// Source of values for bits the RFCs say a receiver must ignore.
/// `Zero` gives the canonical encoding (what a sender must produce).
pub trait Noise {
    /// value for a reserved / RFFU byte
    fn byte(&mut self) -> u8;
    /// value for a padding byte
    fn pad(&mut self) -> u8 {
        self.byte()
    }
    fn bits(&mut self, n: u32) -> u32 {
        let mut v = 0u32;
        for i in 0..((n + 7) / 8) {
            v |= (self.byte() as u32) << (8 * i);
        }
        if n >= 32 {
            v
        } else {
            v & ((1u32 << n) - 1)
        }
    }
}

pub struct Zero;
impl Noise for Zero {
    fn byte(&mut self) -> u8 {
        0
    }
}

pub struct RngNoise<'a>(pub &'a mut crate::rng::Rng);
impl Noise for RngNoise<'_> {
    fn byte(&mut self) -> u8 {
        self.0.next_u64() as u8
    }
}

/// Fixed byte (used for exhaustive small-k sweeps: all bits set / custom padding)
/// Only padding bytes carry the value, reserved fields stay zero (RFC 5769 vectors)
pub struct PadOnly(pub u8);
impl Noise for PadOnly {
    fn byte(&mut self) -> u8 {
        0
    }
    fn pad(&mut self) -> u8 {
        self.0
    }
}

pub struct Const(pub u8);
impl Noise for Const {
    fn byte(&mut self) -> u8 {
        self.0
    }
}

fn xor_addr(addr: &SocketAddr, txid: &[u8; 12]) -> (u16, Vec<u8>) {
    let port = addr.port() ^ ((COOKIE >> 16) as u16);
    let mut mask = COOKIE.to_be_bytes().to_vec();
    mask.extend_from_slice(txid);
    let bytes: Vec<u8> = match addr.ip() {
        IpAddr::V4(a) => a.octets().iter().zip(mask.iter()).map(|(a, m)| a ^ m).collect(),
        IpAddr::V6(a) => a.octets().iter().zip(mask.iter()).map(|(a, m)| a ^ m).collect(),
    };
    (port, bytes)
}

fn addr_value(addr: &SocketAddr, xor: Option<&[u8; 12]>, noise: &mut dyn Noise) -> Vec<u8> {
    let (port, ip): (u16, Vec<u8>) = match xor {
        Some(txid) => xor_addr(addr, txid),
        None => (
            addr.port(),
            match addr.ip() {
                IpAddr::V4(a) => a.octets().to_vec(),
                IpAddr::V6(a) => a.octets().to_vec(),
            },
        ),
    };
    // first 8 bits: "MUST be set to 0 and MUST be ignored by receivers"
    let mut v = vec![noise.byte(), if ip.len() == 4 { 0x01 } else { 0x02 }];
    v.extend_from_slice(&port.to_be_bytes());
    v.extend_from_slice(&ip);
    v
}

fn error_code_value(first: u8, code: u16, reason: &str, noise: &mut dyn Noise) -> Vec<u8> {
    // 21 reserved bits (or family + 13 reserved bits), class 3 bits, number 8 bits
    let class = (code / 100) as u8;
    let number = (code % 100) as u8;
    let r = noise.bits(13);
    let b1 = (r >> 5) as u8;
    let b2 = (((r & 0x1F) as u8) << 3) | (class & 7);
    let mut v = vec![first, b1, b2, number];
    v.extend_from_slice(reason.as_bytes());
    v
}

fn alg_value(alg: u16, params: &[u8]) -> Vec<u8> {
    let mut v = alg.to_be_bytes().to_vec();
    v.extend_from_slice(&(params.len() as u16).to_be_bytes());
    v.extend_from_slice(params);
    v
}

/// USERHASH = SHA-256(OpaqueString(username) ":" OpaqueString(realm))
pub fn user_hash(user: &str, realm: &str) -> [u8; 32] {
    hash::sha256(format!("{}:{}", user, realm).as_bytes())
}

/// Value bytes of an attribute other than the integrity/fingerprint ones.
pub fn attr_value(a: &LAttr, txid: &[u8; 12], noise: &mut dyn Noise) -> Vec<u8> {
    use LAttr::*;
    match a {
        MappedAddress(s) | AlternateServer(s) | OtherAddress(s) | ResponseOrigin(s) => {
            addr_value(s, None, noise)
        }
        XorMappedAddress(s) | XorPeerAddress(s) | XorRelayedAddress(s) => {
            addr_value(s, Some(txid), noise)
        }
        ErrorCode { code, reason } => {
            let first = noise.byte();
            error_code_value(first, *code, reason, noise)
        }
        UserName(s) | Software(s) | Padding(s) => s.as_bytes().to_vec(),
        Realm { text, .. } | Nonce { text, .. } => text.as_bytes().to_vec(),
        PasswordAlgorithm { alg, params } => alg_value(*alg, params),
        PasswordAlgorithms(list) => {
            let mut v = Vec::new();
            for (i, (alg, params)) in list.iter().enumerate() {
                v.extend_from_slice(&alg_value(*alg, params));
                // each entry is padded to 4 bytes; whether the last entry's padding is
                // inside the attribute length is ambiguous -> follow the library
                // (not included), recorded as an assumption
                if i + 1 < list.len() {
                    for _ in 0..pad_len(params.len()) {
                        v.push(noise.pad());
                    }
                }
            }
            v
        }
        UnknownAttributes(list) => list.iter().flat_map(|t| t.to_be_bytes()).collect(),
        UserHash { user, realm } => user_hash(user, realm).to_vec(),
        IceControlled(x) | IceControlling(x) => x.to_be_bytes().to_vec(),
        Priority(x) | LifeTime(x) => x.to_be_bytes().to_vec(),
        UseCandidate | DontFragment => Vec::new(),
        ChannelNumber(n) => {
            let mut v = n.to_be_bytes().to_vec();
            v.push(noise.byte()); // RFFU
            v.push(noise.byte());
            v
        }
        Data(d) | MobilityTicket(d) => d.clone(),
        RequestedAddressFamily(f) | AdditionalAddressFamily(f) => {
            vec![*f, noise.byte(), noise.byte(), noise.byte()]
        }
        EvenPort(r) => vec![(if *r { 0x80 } else { 0 }) | (noise.byte() & 0x7F)],
        RequestedTransport(p) => vec![*p, noise.byte(), noise.byte(), noise.byte()],
        ReservationToken(t) => t.to_vec(),
        AddressErrorCode { family, code, reason } => error_code_value(*family, *code, reason, noise),
        Icmp { typ, code, data } => {
            let w: u16 = ((*typ as u16 & 0x7F) << 9) | (*code & 0x1FF);
            let mut v = vec![noise.byte(), noise.byte()];
            v.extend_from_slice(&w.to_be_bytes());
            v.extend_from_slice(data);
            v
        }
        ChangeRequest { ip, port } => {
            // 29 reserved bits around A (0x4) and B (0x2)
            let r = noise.bits(32) & !0x6;
            let w = r | if *ip { 4 } else { 0 } | if *port { 2 } else { 0 };
            w.to_be_bytes().to_vec()
        }
        ResponsePort(p) => p.to_be_bytes().to_vec(),
        Unknown { value, .. } => value.clone(),
        MessageIntegrity | MessageIntegritySha256 | Fingerprint => {
            unreachable!("computed by build()")
        }
    }
}

/// RFC 3261 quoted-string content (what REALM / NONCE carry on the wire): a sequence of
/// qdtext and quoted-pairs, i.e. no bare DQUOTE and every backslash starts a pair.
pub fn valid_quoted_content(text: &str) -> bool {
    let mut it = text.chars();
    while let Some(c) = it.next() {
        if c == '"' {
            return false;
        }
        if c == '\\' {
            match it.next() {
                Some(n) => {
                    let n = n as u32;
                    if n > 0x7F || n == 0x0A || n == 0x0D {
                        return false;
                    }
                }
                None => return false,
            }
        }
    }
    true
}

pub fn pad_len(n: usize) -> usize {
    (4 - (n % 4)) % 4
}

/// Raw TLV as found on the wire.
#[derive(Clone, Debug, PartialEq, Eq)]
pub struct RawAttr {
    pub typ: u16,
    pub value: Vec<u8>,
    /// offset of the attribute header in the message
    pub offset: usize,
    /// offset one past the value's padding
    pub end: usize,
}

#[derive(Clone, Debug, PartialEq, Eq)]
pub struct RawMsg {
    pub msg_type: u16,
    pub method: u16,
    pub class: u8,
    pub length: u16,
    pub txid: [u8; 12],
    pub attrs: Vec<RawAttr>,
}

impl RawMsg {
    pub fn find(&self, typ: u16) -> Option<&RawAttr> {
        self.attrs.iter().find(|a| a.typ == typ)
    }
    pub fn count(&self, typ: u16) -> usize {
        self.attrs.iter().filter(|a| a.typ == typ).count()
    }
}

/// Strict parse of one complete message occupying exactly `buf`.
pub fn parse(buf: &[u8]) -> Result<RawMsg, String> {
    if buf.len() < 20 {
        return Err(format!("short header ({})", buf.len()));
    }
    let t = u16::from_be_bytes([buf[0], buf[1]]);
    if t & 0xC000 != 0 {
        return Err("top two bits not zero".into());
    }
    let length = u16::from_be_bytes([buf[2], buf[3]]);
    if buf[4..8] != COOKIE.to_be_bytes() {
        return Err("bad magic cookie".into());
    }
    if length % 4 != 0 {
        return Err(format!("length {} not a multiple of 4", length));
    }
    if buf.len() != 20 + length as usize {
        return Err(format!("buffer {} != 20 + length {}", buf.len(), length));
    }
    let mut txid = [0u8; 12];
    txid.copy_from_slice(&buf[8..20]);
    let (method, class) = split_msg_type(t);
    let mut attrs = Vec::new();
    let mut pos = 20usize;
    while pos < buf.len() {
        if pos + 4 > buf.len() {
            return Err(format!("truncated attribute header at {}", pos));
        }
        let typ = u16::from_be_bytes([buf[pos], buf[pos + 1]]);
        let len = u16::from_be_bytes([buf[pos + 2], buf[pos + 3]]) as usize;
        let vend = pos + 4 + len;
        let end = vend + pad_len(len);
        if end > buf.len() {
            return Err(format!("attribute {:#06x} at {} overruns message", typ, pos));
        }
        attrs.push(RawAttr { typ, value: buf[pos + 4..vend].to_vec(), offset: pos, end });
        pos = end;
    }
    Ok(RawMsg { msg_type: t, method, class, length, txid, attrs })
}

/// HMAC input per RFC 8489 14.5/14.6: message up to (excluding) the attribute at
/// `offset`, with the header length set to cover the attribute itself (4 + mac_len).
pub fn integrity_input(msg: &[u8], offset: usize, mac_len: usize) -> Vec<u8> {
    let mut pre = msg[..offset].to_vec();
    let l = (offset - 20 + 4 + mac_len) as u16;
    pre[2..4].copy_from_slice(&l.to_be_bytes());
    pre
}

pub fn mac_sha1(key: &[u8], msg: &[u8], offset: usize) -> [u8; 20] {
    hash::hmac_sha1(key, &integrity_input(msg, offset, 20))
}

pub fn mac_sha256(key: &[u8], msg: &[u8], offset: usize) -> [u8; 32] {
    hash::hmac_sha256(key, &integrity_input(msg, offset, 32))
}

/// FINGERPRINT value for an attribute at `offset`: CRC-32 of the message up to the
/// attribute with the header length covering it (offset - 20 + 8), XOR 0x5354554e.
pub fn fingerprint_value(msg: &[u8], offset: usize) -> u32 {
    let mut pre = msg[..offset].to_vec();
    let l = (offset - 20 + 8) as u16;
    pre[2..4].copy_from_slice(&l.to_be_bytes());
    hash::crc32(&pre) ^ FP_XOR
}

/// One attribute to be placed on the wire by `build_raw`.
#[derive(Clone, Debug)]
pub enum WAttr {
    /// explicit type and value bytes
    Raw(u16, Vec<u8>),
    /// HMAC-SHA1 under key; `Some(x)` xors the first MAC byte with x (wrong MAC)
    Mi(Vec<u8>, Option<u8>),
    /// HMAC-SHA256 under key
    Mi256(Vec<u8>, Option<u8>),
    /// CRC-32; `Some(x)` xors the value (wrong CRC)
    Fp(Option<u32>),
    /// CRC-32 computed with the header length of the WHOLE datagram instead of the length that
    /// ends at this attribute: the RFC value only when it is the last attribute, wrong otherwise
    FpWhole,
}

/// Builds wire bytes from a list of attributes; MAC/CRC attributes are computed over
/// the bytes built so far (including any noise) exactly as the RFC prescribes.
/// The final header length covers all attributes.
pub fn build_raw(method: u16, class: u8, txid: &[u8; 12], attrs: &[WAttr], noise: &mut dyn Noise) -> Vec<u8> {
    let mut out = Vec::with_capacity(128);
    out.extend_from_slice(&msg_type(method, class).to_be_bytes());
    out.extend_from_slice(&[0, 0]);
    out.extend_from_slice(&COOKIE.to_be_bytes());
    out.extend_from_slice(txid);
    let mut whole: Vec<usize> = Vec::new();
    for a in attrs {
        let offset = out.len();
        let (typ, value): (u16, Vec<u8>) = match a {
            WAttr::Raw(t, v) => (*t, v.clone()),
            WAttr::Mi(key, corrupt) => {
                let mut mac = mac_sha1(key, &out, offset).to_vec();
                if let Some(x) = corrupt {
                    mac[0] ^= *x;
                }
                (T_MESSAGE_INTEGRITY, mac)
            }
            WAttr::Mi256(key, corrupt) => {
                let mut mac = mac_sha256(key, &out, offset).to_vec();
                if let Some(x) = corrupt {
                    mac[0] ^= *x;
                }
                (T_MESSAGE_INTEGRITY_SHA256, mac)
            }
            WAttr::Fp(corrupt) => {
                let mut v = fingerprint_value(&out, offset);
                if let Some(x) = corrupt {
                    v ^= *x;
                }
                (T_FINGERPRINT, v.to_be_bytes().to_vec())
            }
            WAttr::FpWhole => {
                whole.push(offset);
                (T_FINGERPRINT, vec![0; 4])
            }
        };
        out.extend_from_slice(&typ.to_be_bytes());
        out.extend_from_slice(&(value.len() as u16).to_be_bytes());
        out.extend_from_slice(&value);
        for _ in 0..pad_len(value.len()) {
            out.push(noise.pad());
        }
    }
    let l = (out.len() - 20) as u16;
    out[2..4].copy_from_slice(&l.to_be_bytes());
    for offset in whole {
        let v = hash::crc32(&out[..offset]) ^ FP_XOR;
        out[offset + 4..offset + 8].copy_from_slice(&v.to_be_bytes());
    }
    out
}

/// Reference encoding of a logical message. With `Zero` noise this is what a
/// conforming sender must emit.
pub fn build(m: &LMsg, noise: &mut dyn Noise) -> Vec<u8> {
    let key = m.key.as_ref().map(|k| k.key_bytes());
    let mut w = Vec::with_capacity(m.attrs.len());
    for a in &m.attrs {
        w.push(match a {
            LAttr::MessageIntegrity => WAttr::Mi(key.clone().expect("MI without key"), None),
            LAttr::MessageIntegritySha256 => WAttr::Mi256(key.clone().expect("MI256 without key"), None),
            LAttr::Fingerprint => WAttr::Fp(None),
            other => WAttr::Raw(other.type_code(), attr_value(other, &m.txid, noise)),
        });
    }
    build_raw(m.method, m.class, &m.txid, &w, noise)
}

/// Total attribute bytes (header length field) of the canonical encoding.
pub fn encoded_attr_bytes(m: &LMsg) -> usize {
    let mut n = 0usize;
    for a in &m.attrs {
        let l = match a {
            LAttr::MessageIntegrity => 20,
            LAttr::MessageIntegritySha256 => 32,
            LAttr::Fingerprint => 4,
            other => attr_value(other, &m.txid, &mut Zero).len(),
        };
        n += 4 + l + pad_len(l);
    }
    n
}

/// RFC 8489 section 14.5 / 14.6 / 14.7 ordering rule, exactly as property C09 states it.
/// Input: sequence of attribute type codes as found on the wire; output: admitted flags.
pub fn admit(types: &[u16]) -> Vec<bool> {
    let (mut mi, mut sha, mut fp) = (false, false, false);
    let mut out = Vec::with_capacity(types.len());
    for t in types {
        let ok = match *t {
            T_MESSAGE_INTEGRITY => !(mi || sha || fp),
            T_MESSAGE_INTEGRITY_SHA256 => !(sha || fp),
            T_FINGERPRINT => !fp,
            _ => !(mi || sha || fp),
        };
        // "came before" refers to wire attributes, admitted or not
        match *t {
            T_MESSAGE_INTEGRITY => mi = true,
            T_MESSAGE_INTEGRITY_SHA256 => sha = true,
            T_FINGERPRINT => fp = true,
            _ => {}
        }
        out.push(ok);
    }
    out
}

pub fn v4(a: u8, b: u8, c: u8, d: u8, port: u16) -> SocketAddr {
    SocketAddr::new(IpAddr::V4(Ipv4Addr::new(a, b, c, d)), port)
}

pub fn v6(o: [u8; 16], port: u16) -> SocketAddr {
    SocketAddr::new(IpAddr::V6(Ipv6Addr::from(o)), port)
}

#[cfg(test)]
mod tests {
    use super::*;

    #[test]
    fn type_interleave() {
        assert_eq!(msg_type(1, CLASS_REQUEST), 0x0001);
        assert_eq!(msg_type(1, CLASS_SUCCESS), 0x0101);
        assert_eq!(msg_type(1, CLASS_ERROR), 0x0111);
        assert_eq!(msg_type(1, CLASS_INDICATION), 0x0011);
        assert_eq!(msg_type(0xFFF, 3), 0x3FFF);
        for m in 0..0x1000u16 {
            for c in 0..4u8 {
                assert_eq!(split_msg_type(msg_type(m, c)), (m, c));
            }
        }
    }

    #[test]
    fn vectors_parse_and_verify() {
        let v = &stun_vectors::SAMPLE_REQUEST;
        let m = parse(v).unwrap();
        assert_eq!(m.method, 1);
        let mi = m.find(T_MESSAGE_INTEGRITY).unwrap();
        assert_eq!(mac_sha1(b"VOkJxbRl1RmTxUk/WvJxBt", v, mi.offset).to_vec(), mi.value);
        let fp = m.find(T_FINGERPRINT).unwrap();
        assert_eq!(fingerprint_value(v, fp.offset).to_be_bytes().to_vec(), fp.value);
    }
}
