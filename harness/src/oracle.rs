//! Shared comparison oracles between logical messages, wire bytes and decoded messages.

use crate::bridge::{self, View};
use crate::refstun::wire::{self, LAttr, LMsg};
use stun_rs::StunMessage;

/// Compare a decoded message against the logical message it must equal.
/// `bytes` are the wire bytes that were decoded (used to compute the expected MAC/CRC of
/// tail attributes with the reference HMAC/CRC at the offsets found by the reference
/// parser).  Returns a list of human-readable mismatches (empty = equal).
pub fn compare_decoded(want: &LMsg, bytes: &[u8], got: &StunMessage, keep_unknown: bool) -> Vec<String> {
    let mut out = Vec::new();
    if got.method().as_u16() != want.method {
        out.push(format!("method {:#x} != {:#x}", got.method().as_u16(), want.method));
    }
    if bridge::class_num(got.class()) != want.class {
        out.push(format!("class {:?} != {}", got.class(), want.class));
    }
    if got.transaction_id().as_bytes() != &want.txid {
        out.push("transaction id differs".to_string());
    }
    let attrs = got.attributes();
    if attrs.len() != want.attrs.len() {
        out.push(format!("attribute count {} != {}", attrs.len(), want.attrs.len()));
    }
    let raw = wire::parse(bytes).ok();
    let key = want.key.as_ref().map(|k| k.key_bytes());
    for (i, (g, w)) in attrs.iter().zip(want.attrs.iter()).enumerate() {
        if w.is_tail() {
            // expected value from the reference over the actual wire bytes
            let Some(raw) = raw.as_ref() else {
                out.push("wire bytes do not parse with the reference".into());
                break;
            };
            let Some(ra) = raw.attrs.get(i) else {
                out.push(format!("attr[{}] missing on the wire", i));
                continue;
            };
            let expect: Vec<u8> = match w {
                LAttr::MessageIntegrity => match &key {
                    Some(k) => wire::mac_sha1(k, bytes, ra.offset).to_vec(),
                    None => ra.value.clone(),
                },
                LAttr::MessageIntegritySha256 => match &key {
                    Some(k) => wire::mac_sha256(k, bytes, ra.offset).to_vec(),
                    None => ra.value.clone(),
                },
                _ => wire::fingerprint_value(bytes, ra.offset).to_be_bytes().to_vec(),
            };
            if ra.typ != w.type_code() {
                out.push(format!("attr[{}] wire type {:#06x} != {:#06x}", i, ra.typ, w.type_code()));
            }
            if !bridge::tail_equals(g, &expect) {
                out.push(format!(
                    "attr[{}] {} value is not the reference {}",
                    i,
                    w.kind_name(),
                    if matches!(w, LAttr::Fingerprint) { "CRC" } else { "HMAC" }
                ));
            }
        } else {
            let gv = bridge::from_lib(g);
            let wv = bridge::expected_view(w, keep_unknown);
            if gv != wv {
                out.push(format!("attr[{}] {} decoded as {}", i, short(&wv), short(&gv)));
            }
        }
    }
    out
}

pub fn short(v: &View) -> String {
    let s = format!("{:?}", v);
    if s.len() > 200 {
        let mut cut = 190;
        while !s.is_char_boundary(cut) {
            cut -= 1;
        }
        format!("{}...", &s[..cut])
    } else {
        s
    }
}
