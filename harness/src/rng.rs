//! Deterministic PRNG (splitmix64 seeding + xoshiro256**). Every random choice of
//! every workload derives from (VERIF_SEED, property, shard, case#).

#[derive(Clone, Debug)]
pub struct Rng {
    s: [u64; 4],
}

fn splitmix(x: &mut u64) -> u64 {
    *x = x.wrapping_add(0x9E37_79B9_7F4A_7C15);
    let mut z = *x;
    z = (z ^ (z >> 30)).wrapping_mul(0xBF58_476D_1CE4_E5B9);
    z = (z ^ (z >> 27)).wrapping_mul(0x94D0_49BB_1331_11EB);
    z ^ (z >> 31)
}

pub fn fnv64(data: &[u8]) -> u64 {
    let mut h: u64 = 0xcbf2_9ce4_8422_2325;
    for b in data {
        h ^= *b as u64;
        h = h.wrapping_mul(0x0000_0100_0000_01B3);
    }
    // final avalanche so that short inputs spread well
    let mut x = h;
    splitmix(&mut x)
}

pub fn mix(a: u64, b: u64) -> u64 {
    let mut x = a ^ b.rotate_left(32) ^ 0x1234_5678_9abc_def1;
    let r = splitmix(&mut x);
    r ^ splitmix(&mut x)
}

impl Rng {
    pub fn new(seed: u64) -> Self {
        let mut x = seed;
        let s = [
            splitmix(&mut x),
            splitmix(&mut x),
            splitmix(&mut x),
            splitmix(&mut x),
        ];
        Rng { s }
    }

    /// Generator for one case: independent of how cases are sharded.
    pub fn for_case(seed: u64, prop: &str, stream: u64, case: u64) -> Self {
        let h = fnv64(prop.as_bytes());
        Rng::new(mix(mix(seed, h), mix(stream, case)))
    }

    pub fn next_u64(&mut self) -> u64 {
        let r = self.s[1].wrapping_mul(5).rotate_left(7).wrapping_mul(9);
        let t = self.s[1] << 17;
        self.s[2] ^= self.s[0];
        self.s[3] ^= self.s[1];
        self.s[1] ^= self.s[2];
        self.s[0] ^= self.s[3];
        self.s[2] ^= t;
        self.s[3] = self.s[3].rotate_left(45);
        r
    }

    pub fn next_u32(&mut self) -> u32 {
        (self.next_u64() >> 32) as u32
    }

    /// Uniform in 0..n (n > 0).
    pub fn below(&mut self, n: u64) -> u64 {
        debug_assert!(n > 0);
        // multiply-shift; bias negligible for our n
        ((self.next_u64() as u128 * n as u128) >> 64) as u64
    }

    pub fn usize_below(&mut self, n: usize) -> usize {
        self.below(n as u64) as usize
    }

    /// Uniform in lo..=hi
    pub fn range(&mut self, lo: u64, hi: u64) -> u64 {
        lo + self.below(hi - lo + 1)
    }

    pub fn bool(&mut self) -> bool {
        self.next_u64() & 1 == 1
    }

    /// true with probability num/den
    pub fn chance(&mut self, num: u64, den: u64) -> bool {
        self.below(den) < num
    }

    pub fn bytes(&mut self, n: usize) -> Vec<u8> {
        let mut v = Vec::with_capacity(n);
        while v.len() < n {
            let x = self.next_u64().to_le_bytes();
            let take = (n - v.len()).min(8);
            v.extend_from_slice(&x[..take]);
        }
        v
    }

    pub fn fill(&mut self, buf: &mut [u8]) {
        let b = self.bytes(buf.len());
        buf.copy_from_slice(&b);
    }

    pub fn pick<'a, T>(&mut self, items: &'a [T]) -> &'a T {
        &items[self.usize_below(items.len())]
    }

    pub fn shuffle<T>(&mut self, items: &mut [T]) {
        for i in (1..items.len()).rev() {
            let j = self.usize_below(i + 1);
            items.swap(i, j);
        }
    }

    /// Weighted choice: returns index.
    pub fn weighted(&mut self, weights: &[u32]) -> usize {
        let total: u64 = weights.iter().map(|w| *w as u64).sum();
        let mut x = self.below(total.max(1));
        for (i, w) in weights.iter().enumerate() {
            if x < *w as u64 {
                return i;
            }
            x -= *w as u64;
        }
        weights.len() - 1
    }
}
