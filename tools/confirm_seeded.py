#!/usr/bin/env python3
"""Confirms seeded changes from sub-agents, independently of what they reported.

For every /verif/seeded_raw/<id>/<X>/ :
  1. in a scratch worktree of /repo HEAD (outside /repo and /verif): the demonstration passes on
     the unchanged tree;
  2. with the patch applied there: the workspace builds, the existing suite (unedited) passes, the
     demonstration FAILS;
  3. (separately, tools/try_mutant.sh) which of our checks report a violation with the patch
     applied to /repo (restored straight afterwards).
Confirmed changes are copied to /verif/seeded/<id>-<X>/ with meta.json.
usage: tools/confirm_seeded.py [id-X ...]
"""
import json, os, re, shutil, subprocess, sys, time

ROOT = os.path.dirname(os.path.dirname(os.path.abspath(__file__)))
RAW = os.path.join(ROOT, "seeded_raw")
OUT = os.path.join(ROOT, "seeded")
WT = "/tmp/mutwork" + os.environ.get("SCRATCH_SUFFIX", "")
ENV = dict(os.environ, CARGO_NET_OFFLINE="true", RUST_BACKTRACE="0")


def sh(cmd, cwd=None, timeout=1800):
    r = subprocess.run(cmd, shell=True, cwd=cwd, env=ENV, stdout=subprocess.PIPE, stderr=subprocess.STDOUT, text=True, timeout=timeout)
    return r.returncode, r.stdout


def ensure_wt():
    if not os.path.isdir(WT):
        sh("git -C /repo worktree add -q --detach %s HEAD" % WT)
        shutil.copy("/repo/Cargo.lock", os.path.join(WT, "Cargo.lock"))
    sh("git checkout -q --detach $(git -C /repo rev-parse HEAD) && git checkout -- . && git clean -fdq -e target -e Cargo.lock", cwd=WT)


def patch_path(d):
    reb = os.path.join(d, "patch.rebased.diff")
    return reb if os.path.exists(reb) else os.path.join(d, "patch.diff")


def confirm(pid, x, detect_props):
    d = os.path.join(RAW, pid, x)
    demo = os.path.join(d, "demo.rs")
    first = open(demo).readline()
    m = re.search(r"place at (\S+?);\s*run:\s*(.*)$", first)
    place, run = m.group(1), m.group(2).strip()
    res = {"id": "%s-%s" % (pid, x), "property": pid, "demo_place": place, "demo_cmd": run}
    ensure_wt()
    dst = os.path.join(WT, place)
    os.makedirs(os.path.dirname(dst), exist_ok=True)
    shutil.copy(demo, dst)
    rc, out = sh(run, cwd=WT)
    res["demo_passes_unchanged"] = (rc == 0)
    if rc != 0:
        res["demo_unchanged_tail"] = out[-1500:]
    rc, out = sh("git apply %s" % patch_path(d), cwd=WT)
    res["patch_applies"] = (rc == 0)
    if rc == 0:
        rc, out = sh(run, cwd=WT)
        res["demo_fails_with_change"] = (rc != 0)
        os.remove(dst)
        rc, out = sh("cargo nextest run --workspace --no-fail-fast --offline 2>&1 | tail -5", cwd=WT)
        mm = re.search(r"(\d+) tests run: (\d+) passed", out)
        res["suite_with_change"] = mm.group(0) if mm else out[-300:]
        res["suite_passes_with_change"] = bool(mm and mm.group(1) == mm.group(2) and int(mm.group(1)) >= 356)
    ensure_wt()
    # detection by our checks
    res["detected_by"] = {}
    for p in detect_props:
        rc, out = sh("MAXLINES=40 %s/tools/try_mutant_scratch.sh %s %s quick" % (ROOT, patch_path(d), p), cwd=ROOT, timeout=3600)
        sigs = re.findall(r"signature=(\S+)", out)
        res["detected_by"][p] = {"exit": rc, "signatures": sigs[:12]}
    res["confirmed"] = bool(res.get("demo_passes_unchanged") and res.get("patch_applies") and res.get("demo_fails_with_change") and res.get("suite_passes_with_change"))
    return res


def needs(pid, x):
    """what the change needs in order to manifest (from the sub-agent's notes, first lines)"""
    try:
        t = open(os.path.join(RAW, pid, x, "notes.md")).read()
    except Exception:
        return ""
    return t[:1800]


# additional checks worth trying for a change (cross-property detection)
EXTRA = {
    "C01": ["C02", "C14"], "C02": ["C01", "C14"], "C03": ["C16", "C01"], "C04": ["C07", "C08", "C13"], "C05": ["C11", "C12"],
    "C06": ["C11"], "C07": ["C05"], "C08": ["C13", "C17"], "C09": ["C18", "C10"], "C10": ["C05", "C09"],
    "C11": ["C05"], "C12": ["C05"], "C13": ["C07", "C08"], "C14": ["C01", "C02"], "C15": ["C06"],
    "C16": ["C03"], "C17": ["C08", "C07"], "C18": ["C09"], "C19": ["C03", "C01"],
}


def main():
    args = sys.argv[1:]
    no_detect = "--no-detect" in args
    want = [a for a in args if not a.startswith("--")]
    os.makedirs(OUT, exist_ok=True)
    summary = []
    for pid in sorted(os.listdir(RAW)):
        if not os.path.isdir(os.path.join(RAW, pid)):
            continue
        for x in sorted(os.listdir(os.path.join(RAW, pid))):
            tag = "%s-%s" % (pid, x)
            if want and tag not in want:
                continue
            t0 = time.time()
            res = confirm(pid, x, [] if no_detect else [pid] + EXTRA.get(pid, []))
            res["needs_to_manifest_and_notes"] = needs(pid, x)
            res["wall_s"] = round(time.time() - t0, 1)
            dst = os.path.join(OUT, tag)
            shutil.rmtree(dst, ignore_errors=True)
            if res["confirmed"]:
                os.makedirs(dst)
                shutil.copy(patch_path(os.path.join(RAW, pid, x)), os.path.join(dst, "patch.diff"))
                shutil.copy(os.path.join(RAW, pid, x, "demo.rs"), os.path.join(dst, "demo.rs"))
                meta = {
                    "id": tag, "breaks_property": pid, "base_commit": subprocess.run("git -C /repo rev-parse --short HEAD", shell=True, stdout=subprocess.PIPE, text=True).stdout.strip(),
                    "needs_to_manifest": res["needs_to_manifest_and_notes"],
                    "what_was_run": {
                        "demo_on_unchanged_tree": "%s -> pass" % res["demo_cmd"],
                        "demo_with_change": "%s -> FAIL" % res["demo_cmd"],
                        "suite_with_change": res.get("suite_with_change"),
                        "checks_with_change_applied_to_repo": {p: ("exit %s %s" % (v["exit"], ",".join(v["signatures"][:6]))) for p, v in res["detected_by"].items()},
                    },
                    "detected_by_quick_checks": [p for p, v in res["detected_by"].items() if v["exit"] == 1],
                }
                json.dump(meta, open(os.path.join(dst, "meta.json"), "w"), indent=1)
            det = [p for p, v in res["detected_by"].items() if v["exit"] == 1]
            print("%s confirmed=%s demo_ok=%s fails=%s suite=%s detected_by=%s (%.0fs)" % (
                tag, res["confirmed"], res.get("demo_passes_unchanged"), res.get("demo_fails_with_change"), res.get("suite_passes_with_change"), det, res["wall_s"]), flush=True)
            summary.append(res)
            json.dump(summary, open(os.path.join(OUT, "RESULTS-nodetect.json" if no_detect else "RESULTS.json"), "w"), indent=1)
    sh("git -C /repo worktree remove --force %s" % WT)
    sh("git -C /repo worktree prune")


main()
