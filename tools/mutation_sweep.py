#!/usr/bin/env python3
"""Mechanical mutation sweep: how many small syntactic changes of sancane/rustun that still
compile AND still pass the existing suite are reported by the checks of /verif?

It complements the hand-made seeded changes of /verif/seeded (realistic, targeted) with breadth:
hundreds of operator-level mutants over the files the properties are anchored in.

Everything happens in scratch worktrees/copies under /tmp/msw (never in /repo, never in /verif
except for the result files under /verif/mutants/<name>/):

  for each sampled mutant (file, line, operator):
     1. apply it in worker worktree  /tmp/msw/w<i>/repo
     2. cargo nextest run --workspace --offline     -> build-failed | killed-by-suite | survived
     3. survivors: run the quick checks relevant to the file from /tmp/msw/w<i>/verif (an rsync
        copy of /verif whose harness points at the worker worktree)  -> detected by [...] | missed
  results: /verif/mutants/<name>/results.jsonl (+ one .diff per surviving mutant)

usage: tools/mutation_sweep.py <name> [--seed N] [--per-file K] [--workers W] [--files glob,...]
       tools/mutation_sweep.py <name> --summary
"""
import glob, json, os, random, re, shutil, subprocess, sys, threading, time

ROOT = os.path.dirname(os.path.dirname(os.path.abspath(__file__)))
BASE = "/tmp/msw"
ENV = dict(os.environ, CARGO_NET_OFFLINE="true", RUST_BACKTRACE="0")

AGENT_PROPS = ["C05", "C06", "C11", "C12", "C07", "C08", "C10", "C13", "C17", "C15", "C16", "C03"]
CODEC_PROPS = ["C01", "C02", "C03", "C04", "C09", "C10", "C14", "C18", "C19", "C07", "C08", "C13"]

# file -> properties whose quick check is run on a survivor (most specific first)
TARGETS = [
    ("stun-agent/src/client.rs", AGENT_PROPS, 4),
    ("stun-agent/src/timeout.rs", ["C06", "C11", "C05", "C12", "C15", "C17"], 2),
    ("stun-agent/src/rtt.rs", ["C15", "C06", "C11"]),
    ("stun-agent/src/integrity.rs", ["C07", "C08", "C17", "C05", "C10"]),
    ("stun-agent/src/st_cred_mech.rs", ["C07", "C13", "C17", "C05"]),
    ("stun-agent/src/lt_cred_mech.rs", ["C08", "C13", "C17", "C05"], 3),
    ("stun-agent/src/fingerprint.rs", ["C10", "C13", "C17"]),
    ("stun-agent/src/message.rs", ["C13", "C07", "C08", "C10", "C09"]),
    ("stun-agent/src/events.rs", ["C05", "C11", "C06", "C12"]),
    ("stun-agent/src/lib.rs", ["C16", "C03"], 2),
    ("stun-rs/src/context.rs", CODEC_PROPS, 3),
    ("stun-rs/src/raw.rs", CODEC_PROPS),
    ("stun-rs/src/common.rs", CODEC_PROPS, 2),
    ("stun-rs/src/types.rs", CODEC_PROPS, 2),
    ("stun-rs/src/strings.rs", ["C01", "C02", "C03", "C04", "C19", "C08"]),
    ("stun-rs/src/message.rs", ["C01", "C02", "C19", "C03", "C14"]),
    ("stun-rs/src/registry.rs", ["C01", "C03", "C09", "C18"]),
    ("stun-rs/src/attributes/address_port.rs", ["C01", "C02", "C03", "C14", "C19"]),
    ("stun-rs/src/attributes/integrity_attr.rs", ["C04", "C14", "C01", "C02", "C07"]),
    ("stun-rs/src/attributes/stun/fingerprint.rs", ["C10", "C01", "C02", "C14"]),
    ("stun-rs/src/attributes/stun/password_algorithms.rs", ["C01", "C02", "C03", "C14", "C19", "C08"]),
    ("stun-rs/src/attributes/stun/password_algorithm.rs", ["C01", "C02", "C03", "C14", "C19", "C08"]),
    ("stun-rs/src/attributes/stun/error_code.rs", ["C01", "C02", "C03", "C19"]),
    ("stun-rs/src/attributes/stun/unknown_attributes.rs", ["C01", "C02", "C03", "C19"]),
    ("stun-rs/src/attributes/stun/nonce.rs", ["C01", "C02", "C19", "C08"]),
    ("stun-rs/src/attributes/stun/user_hash.rs", ["C01", "C02", "C19", "C08"]),
    ("stun-rs/src/attributes/stun/message_integrity.rs", ["C04", "C01", "C02", "C07"]),
    ("stun-rs/src/attributes/stun/message_integrity_sha256.rs", ["C04", "C01", "C02", "C07"]),
    ("stun-rs/src/attributes/turn/*.rs", ["C01", "C02", "C03", "C14", "C19"], 2),
    ("stun-rs/src/attributes/stun/*.rs", ["C01", "C02", "C03", "C14", "C19", "C08"], 2),
    ("stun-rs/src/attributes.rs", ["C01", "C02", "C03", "C18", "C19"]),
    ("stun-rs/src/attributes/unknown.rs", ["C18", "C03", "C09", "C19"]),
    ("stun-rs/src/attributes/ice/*.rs", ["C01", "C02", "C03", "C14", "C19"]),
    ("stun-rs/src/attributes/discovery/*.rs", ["C01", "C02", "C03", "C14", "C19"]),
    ("stun-rs/src/attributes/mobility/*.rs", ["C01", "C02", "C03", "C14", "C19"]),
]

OPS = [
    ("le->lt", r" <= ", " < "), ("lt->le", r" < ", " <= "), ("ge->gt", r" >= ", " > "), ("gt->ge", r" > ", " >= "),
    ("eq->ne", r" == ", " != "), ("ne->eq", r" != ", " == "), ("and->or", r" && ", " || "), ("or->and", r" \|\| ", " && "),
    ("plus->minus", r" \+ ", " - "), ("minus->plus", r" - ", " + "), ("addassign->subassign", r" \+= ", " -= "),
    ("subassign->addassign", r" -= ", " += "), ("true->false", r"\btrue\b", "false"), ("false->true", r"\bfalse\b", "true"),
    ("is_some->is_none", r"\.is_some\(\)", ".is_none()"), ("is_none->is_some", r"\.is_none\(\)", ".is_some()"),
    ("drop-negation", r"\bif !", "if "), ("is_empty-negate", r"(\b[\w\.]+)\.is_empty\(\)", r"!\1.is_empty()"),
    ("shl->shr", r" << ", " >> "), ("bitand->bitor", r" & ", " | "), ("bitor->bitand", r" \| ", " & "),
    ("ok_or-some->none", r"\bSome\((\w+)\) =>", r"Some(\1) if false =>"),
    ("min->max", r"\.min\(", ".max("), ("max->min", r"\.max\(", ".min("),
    ("first->last", r"\.first\(\)", ".last()"), ("last->first", r"\.last\(\)", ".first()"),
    ("checked_add->sub", r"\bchecked_add\(", "checked_sub("), ("checked_sub->add", r"\bchecked_sub\(", "checked_add("),
    ("saturating_sub->add", r"\bsaturating_sub\(", "saturating_add("), ("saturating_add->sub", r"\bsaturating_add\(", "saturating_sub("),
    ("mul->div", r" \* ", " / "), ("div->mul", r" / ", " * "), ("rem->div", r" % ", " / "),
    ("if-false", r"^(\s*(?:\} else )?)if (?!let )(.*) \{$", r"\1if false && (\2) {"),
    ("if-true", r"^(\s*(?:\} else )?)if (?!let )(.*) \{$", r"\1if true || (\2) {"),
    ("assign-some->none", r"= Some\(.*\);$", "= None;"),
    ("return-some->none", r"\breturn Some\(.*\);$", "return None;"),
    ("ok->default-unit-skip", r"\.retain\(\|(\w+)\| ", r".retain(|\1| !"),
    ("take_while->skip_while", r"\.take_while\(", ".skip_while("), ("any->all", r"\.any\(", ".all("), ("all->any", r"\.all\(", ".any("),
    ("ge-const", r"\.is_ok\(\)", ".is_err()"), ("is_err->is_ok", r"\.is_err\(\)", ".is_ok()"),
    ("unwrap_or_default", r"\.unwrap_or\(true\)", ".unwrap_or(false)"),
]
ASSIGN_RE = re.compile(r"^\s*(?!let |return|if |for |while |match |else|pub |fn |const |static )[\w\.\*\[\]]+ (=|\+=|-=|\|=|&=) [^=].*;\s*$")
INT_RE = re.compile(r"(?<![\w.\"'#])(\d+)(?![\w.\"'])")
STMT_RE = re.compile(r"^\s*(?!let |return|if |for |while |match |else|pub |fn |use |mod |impl |struct |enum |type |const |static )[A-Za-z_][\w\.:]*(::<[^;]*>)?\(.*\)\??;\s*$")
JUMP_RE = re.compile(r"^\s*(break|continue);\s*$")


def sh(cmd, cwd=None, timeout=1800, env=None):
    # own process group, killed as a whole on time-out: a mutant that makes a test spin must not
    # leave the test binary behind (it would eat a core for the rest of the session)
    import signal
    p = subprocess.Popen(cmd, shell=True, cwd=cwd, env=env or ENV, stdout=subprocess.PIPE, stderr=subprocess.STDOUT, text=True, start_new_session=True)
    try:
        out, _ = p.communicate(timeout=timeout)
        return p.returncode, out
    except subprocess.TimeoutExpired:
        try:
            os.killpg(p.pid, signal.SIGKILL)
        except Exception:
            pass
        try:
            out, _ = p.communicate(timeout=10)
        except Exception:
            out = ""
        return 124, out or ""


def in_string(line, pos):
    q = 0
    i = 0
    while i < pos:
        if line[i] == "\\":
            i += 2
            continue
        if line[i] == '"':
            q += 1
        i += 1
    return q % 2 == 1


def mutable_lines(lines):
    """indices of lines of library code: before the first #[cfg(test)], outside comments,
    attributes, imports, and outside the items guarded by the verif-hooks feature"""
    out = []
    skip_depth = None  # inside a verif-hooks item
    pending_hook = False
    depth = 0
    for i, l in enumerate(lines):
        s = l.strip()
        if re.match(r"#\[cfg\(test\)\]", s):
            break
        if "verif-hooks" in s or "verif_hooks" in s:
            pending_hook = True
            continue
        opens, closes = l.count("{"), l.count("}")
        if pending_hook and skip_depth is None:
            # the item that follows the attribute
            if opens > closes:
                skip_depth = depth
                pending_hook = False
            elif s.endswith(";") or s.endswith(","):
                pending_hook = False
                depth += opens - closes
                continue
        depth += opens - closes
        if skip_depth is not None:
            if depth <= skip_depth:
                skip_depth = None
            continue
        if not s or s.startswith("//") or s.startswith("#[") or s.startswith("#![") or s.startswith("use ") or s.startswith("pub use ") or s.startswith("pub(crate) use "):
            continue
        if s.startswith("debug!") or s.startswith("info!") or s.startswith("warn!") or s.startswith("trace!") or s.startswith("error!"):
            continue
        out.append(i)
    return out


def candidates(path, text):
    lines = text.split("\n")
    cands = []
    for i in mutable_lines(lines):
        l = lines[i]
        code = l.split("//")[0] if "//" in l and not in_string(l, l.index("//")) else l
        for name, pat, rep in OPS:
            for m in re.finditer(pat, code):
                if in_string(code, m.start()):
                    continue
                new = code[: m.start()] + re.sub(pat, rep, code[m.start(): m.end()], count=1) + code[m.end():]
                if new != code:
                    cands.append((i, name, new + l[len(code):]))
        for m in INT_RE.finditer(code):
            if in_string(code, m.start()):
                continue
            n = int(m.group(1))
            new = code[: m.start()] + str(n + 1) + code[m.end():]
            cands.append((i, "int+1", new + l[len(code):]))
            if n > 0:
                new = code[: m.start()] + str(n - 1) + code[m.end():]
                cands.append((i, "int-1", new + l[len(code):]))
        if STMT_RE.match(code) or JUMP_RE.match(code) or ASSIGN_RE.match(code):
            cands.append((i, "delete-statement", re.match(r"\s*", l).group(0) + "// (statement deleted)"))
    return cands


class Worker(threading.Thread):
    def __init__(self, idx, queue, out_dir, lock):
        super().__init__()
        self.idx, self.queue, self.out_dir, self.lock = idx, queue, out_dir, lock
        self.repo = "%s/w%d/repo" % (BASE, idx)
        self.verif = "%s/w%d/verif" % (BASE, idx)

    def setup(self):
        os.makedirs("%s/w%d" % (BASE, self.idx), exist_ok=True)
        if not os.path.isdir(self.repo):
            rc, out = sh("git -C /repo worktree add -q --detach %s HEAD" % self.repo)
            if rc != 0:
                raise RuntimeError(out)
            shutil.copy("/repo/Cargo.lock", self.repo + "/Cargo.lock")
        sh("git checkout -q --detach $(git -C /repo rev-parse HEAD) && git checkout -- . && git clean -fdq -e target -e Cargo.lock", cwd=self.repo)
        sh("mkdir -p %s && rsync -a --delete --exclude .git --exclude 'harness/target*' --exclude .run --exclude replay --exclude evidence --exclude mutants --exclude seeded --exclude seeded_raw %s/ %s/" % (self.verif, ROOT, self.verif))
        os.makedirs(self.verif + "/evidence", exist_ok=True)
        sh("sed -i 's#\"/repo/#\"%s/#g' %s/harness/Cargo.toml %s/harness/fuzz/Cargo.toml" % (self.repo, self.verif, self.verif))
        rc, out = sh("cargo nextest run --workspace --offline 2>&1 | tail -3", cwd=self.repo, timeout=1800)
        if "passed" not in out:
            raise RuntimeError("baseline suite does not pass in worker %d: %s" % (self.idx, out[-400:]))

    def run(self):
        try:
            self.setup()
        except Exception as e:  # noqa
            print("worker %d setup failed: %s" % (self.idx, e), flush=True)
            return
        while True:
            with self.lock:
                if not self.queue:
                    return
                mut = self.queue.pop(0)
            res = self.one(mut)
            with self.lock:
                with open(os.path.join(self.out_dir, "results.jsonl"), "a") as f:
                    f.write(json.dumps(res) + "\n")
                print("%s %s:%d %s -> %s %s" % (res["id"], res["file"], res["line"], res["op"], res["status"], ",".join(res.get("detected_by", []))), flush=True)

    def one(self, mut):
        mid, path, line, op, new_line, props = mut
        res = {"id": mid, "file": path, "line": line + 1, "op": op, "props_run": []}
        full = os.path.join(self.repo, path)
        sh("git checkout -- .", cwd=self.repo)
        text = open(full).read().split("\n")
        res["old"] = text[line].strip()
        res["new"] = new_line.strip()
        text[line] = new_line
        open(full, "w").write("\n".join(text))
        t0 = time.time()
        rc, out = sh("cargo nextest run --workspace --offline 2>&1", cwd=self.repo, timeout=600)
        out = out[-3000:]
        res["suite_s"] = round(time.time() - t0, 1)
        if rc == 124:
            res["status"] = "killed-by-suite(timeout)"
        elif re.search(r"error(\[E\d+\])?:|could not compile", out) and "tests run" not in out:
            res["status"] = "does-not-compile"
        else:
            m = re.search(r"(\d+) tests run: (\d+) passed", out)
            if m and m.group(1) == m.group(2) and int(m.group(1)) >= 356 and "failed" not in out.split("tests run:")[-1].split("\n")[0]:
                res["status"] = "survived-suite"
            else:
                res["status"] = "killed-by-suite"
        if res["status"] != "survived-suite":
            sh("git checkout -- .", cwd=self.repo)
            return res
        rc, diff = sh("git diff", cwd=self.repo)
        open(os.path.join(self.out_dir, "%s.diff" % mid), "w").write(diff)
        detected, details = [], {}
        for p in props:
            t1 = time.time()
            rc, out = sh("./check %s quick 2>&1" % p, cwd=self.verif, timeout=1500, env=dict(ENV, VERIF_SEED="1"))
            sigs = re.findall(r"signature=(\S+)", out)
            details[p] = {"exit": rc, "signatures": sigs[:6], "s": round(time.time() - t1, 1)}
            res["props_run"].append(p)
            if rc == 2 and "harness build" in out and "failed" in out:
                # the suite builds stun-rs without the discovery / mobility features; the harness
                # enables every feature, and there the mutant is a compile error
                res["status"] = "does-not-compile(all-features)"
                sh("git checkout -- .", cwd=self.repo)
                res["checks"] = details
                return res
            if rc == 1 and "VIOLATION" in out:
                detected.append(p)
                if len(detected) >= 2:
                    break  # two independent reports are enough
        res["detected_by"] = detected
        res["checks"] = details
        res["status"] = "detected" if detected else "missed"
        sh("git checkout -- .", cwd=self.repo)
        return res


def summary(out_dir):
    rows = [json.loads(l) for l in open(os.path.join(out_dir, "results.jsonl"))]
    by = {}
    for r in rows:
        by.setdefault(r["status"], []).append(r)
    print("mutants: %d" % len(rows))
    for k, v in sorted(by.items()):
        print("  %-28s %d" % (k, len(v)))
    surv = [r for r in rows if r["status"] in ("detected", "missed")]
    if surv:
        print("suite-surviving mutants reported by the checks: %d of %d" % (len(by.get("detected", [])), len(surv)))
    for r in by.get("missed", []):
        print("MISSED %s %s:%d %s | %s  =>  %s" % (r["id"], r["file"], r["line"], r["op"], r["old"][:90], r["new"][:90]))


def main():
    args = sys.argv[1:]
    name = args[0]
    out_dir = os.path.join(ROOT, "mutants", name)
    if "--summary" in args:
        return summary(out_dir)
    seed = int(args[args.index("--seed") + 1]) if "--seed" in args else 1
    per_file = int(args[args.index("--per-file") + 1]) if "--per-file" in args else 12
    workers = int(args[args.index("--workers") + 1]) if "--workers" in args else 3
    only = args[args.index("--files") + 1].split(",") if "--files" in args else None
    os.makedirs(out_dir, exist_ok=True)
    done = set()
    rp = os.path.join(out_dir, "results.jsonl")
    if os.path.exists(rp):
        done = {json.loads(l)["id"] for l in open(rp)}
    rnd = random.Random(seed)
    queue = []
    for t in TARGETS:
        pat, props, weight = t[0], t[1], (t[2] if len(t) > 2 else 1)
        if only and not any(o in pat for o in only):
            continue
        files = sorted(glob.glob(os.path.join("/repo", pat)))
        cands = []
        for f in files:
            rel = os.path.relpath(f, "/repo")
            for (i, op, new) in candidates(rel, open(f).read()):
                cands.append((rel, i, op, new))
        rnd.shuffle(cands)
        # spread over distinct lines first
        seen_lines, picked = set(), []
        for c in cands:
            if (c[0], c[1]) in seen_lines:
                continue
            seen_lines.add((c[0], c[1]))
            picked.append(c)
            if len(picked) >= per_file * weight:
                break
        for c in picked:
            mid = "m%d-%s-%d-%s" % (seed, re.sub(r"[^a-z0-9]+", "_", c[0].replace("/src/", "/").replace(".rs", "")), c[1] + 1, c[2].replace(">", "").replace("+", "p"))
            if mid in done:
                continue
            done.add(mid)
            queue.append((mid, c[0], c[1], c[2], c[3], props))
    rnd.shuffle(queue)
    print("%d mutants queued (%d already done)" % (len(queue), len(done)), flush=True)
    lock = threading.Lock()
    ws = [Worker(i, queue, out_dir, lock) for i in range(workers)]
    for w in ws:
        w.start()
    for w in ws:
        w.join()
    summary(out_dir)


if __name__ == "__main__":
    main()
