//! Workload + monitor wiring per property.

use crate::ctx::{guarded, panic_sig, Ctx, PanicInfo};
use crate::json::J;
use stun_rs::{
    DecoderContextBuilder, HMACKey, MessageDecoder, MessageDecoderBuilder, MessageEncoderBuilder,
    StunMessage,
};

pub mod c01;
pub mod c02;
pub mod c03;
pub mod c04;
pub mod c09;
pub mod c14;
pub mod c16;
pub mod c18;
pub mod c19;
pub mod credprops;
pub mod enumprops;
pub mod simprops;

pub fn run(prop: &str, ctx: &mut Ctx) -> Result<(), String> {
    match prop {
        "C01" => c01::run(ctx),
        "C02" => c02::run(ctx),
        "C03" => c03::run(ctx),
        "C04" => c04::run(ctx),
        "C09" => c09::run(ctx),
        "C14" => c14::run(ctx),
        "C16" => c16::run(ctx),
        "C18" => c18::run(ctx),
        "C19" => c19::run(ctx),
        "C07" => credprops::run_c07(ctx),
        "C08" => credprops::run_c08(ctx),
        "C10" => credprops::run_c10(ctx),
        "C13" => credprops::run_c13(ctx),
        "C05" => simprops::run_c05(ctx),
        "C06" => simprops::run_c06(ctx),
        "C11" => simprops::run_c11(ctx),
        "C12" => simprops::run_c12(ctx),
        "C15" => simprops::run_c15(ctx),
        "C17" => simprops::run_c17(ctx),
        _ => return Err(format!("unknown property {}", prop)),
    }
    Ok(())
}

/// Decoder options: bit0 = key, bit1 = validation, bit2 = unknown data, bit3 = not_ignore.
/// `None` = decoder built without any context.
pub fn decoder(opts: Option<u8>, key: Option<&HMACKey>) -> MessageDecoder {
    match opts {
        None => MessageDecoderBuilder::default().build(),
        Some(o) => {
            let mut b = DecoderContextBuilder::default();
            if o & 1 != 0 {
                if let Some(k) = key {
                    b = b.with_key(k.clone());
                }
            }
            if o & 2 != 0 {
                b = b.with_validation();
            }
            if o & 4 != 0 {
                b = b.with_unknown_data();
            }
            if o & 8 != 0 {
                b = b.not_ignore();
            }
            MessageDecoderBuilder::default().with_context(b.build()).build()
        }
    }
}

pub fn opts_name(opts: Option<u8>) -> String {
    match opts {
        None => "no-context".into(),
        Some(o) => format!(
            "ctx[{}{}{}{}]",
            if o & 1 != 0 { "key," } else { "" },
            if o & 2 != 0 { "validation," } else { "" },
            if o & 4 != 0 { "unknown-data," } else { "" },
            if o & 8 != 0 { "not-ignore," } else { "" }
        ),
    }
}

/// Encode with the default encoder into a buffer of `buf_len` bytes pre-filled with `fill`.
pub fn encode(msg: &StunMessage, buf_len: usize, fill: u8) -> Result<Result<(Vec<u8>, usize), String>, PanicInfo> {
    guarded(|| {
        let enc = MessageEncoderBuilder::default().build();
        let mut buf = vec![fill; buf_len];
        match enc.encode(&mut buf, msg) {
            Ok(n) => Ok((buf, n)),
            Err(e) => Err(e.to_string()),
        }
    })
}

pub fn decode(dec: &MessageDecoder, bytes: &[u8]) -> Result<Result<(StunMessage, usize), String>, PanicInfo> {
    guarded(|| dec.decode(bytes).map_err(|e| e.to_string()))
}

pub fn report_panic(ctx: &mut Ctx, what: &str, p: &PanicInfo, witness: J) {
    let sig = format!("{}:{}", what, panic_sig(p));
    ctx.violation(&sig, format!("panic in {}: {} at {}", what, p.message, p.location), witness);
}
