pub mod hash;
pub mod wire;
