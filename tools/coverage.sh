#!/bin/bash
# usage: tools/coverage.sh [seed] [tier]
# Source-coverage of /repo's library code by the monitored workloads (all 19 properties, quick tier
# by default): which lines / functions of stun-rs and stun-agent the monitors actually observed
# executions of.  Not a check; the report (coverage/SUMMARY.txt, coverage/uncovered_functions.txt)
# is used to find code the workloads never drive.  Needs the nightly toolchain (llvm-tools).
set -u
seed="${1:-1}"; tier="${2:-quick}"
V=/verif; H=$V/harness; T=$H/target-cov; P=/tmp/verif_cov_prof
BIN=$(rustc +nightly --print sysroot)/lib/rustlib/x86_64-unknown-linux-gnu/bin
[ -f $H/Cargo.lock ] || cp /repo/Cargo.lock $H/Cargo.lock
rm -rf $P; mkdir -p $P $V/coverage
( cd $H && LLVM_PROFILE_FILE="$P/build-%p-%m.profraw" CARGO_NET_OFFLINE=true RUSTFLAGS="-Cinstrument-coverage" CARGO_TARGET_DIR=$T cargo +nightly build --offline --quiet ) || exit 2
N=4
for p in $(seq -w 1 19); do
  for i in $(seq 0 $((N-1))); do
    mkdir -p $P/out/C$p
    ( cd $H && LLVM_PROFILE_FILE="$P/C$p-$i-%p.profraw" timeout 1500 $T/debug/harness run --prop C$p --tier $tier --seed $seed \
        --shard $i/$N --out $P/out/C$p --scale 1 --profile-name dev > $P/out/C$p/log-$i.txt 2>&1 ) &
  done
  while [ $(jobs -r | wc -l) -ge 16 ]; do sleep 0.5; done
done
wait
$BIN/llvm-profdata merge -sparse $P/C*.profraw -o $P/all.profdata || exit 2
$BIN/llvm-cov report $T/debug/harness -instr-profile=$P/all.profdata --ignore-filename-regex='(\.cargo|/rustc/|/verif/|rustlib)' > $V/coverage/SUMMARY.txt
$BIN/llvm-cov export $T/debug/harness -instr-profile=$P/all.profdata --ignore-filename-regex='(\.cargo|/rustc/|/verif/|rustlib)' -format=lcov > $P/all.lcov
python3 - "$P/all.lcov" > $V/coverage/uncovered_functions.txt <<'PY'
import sys, re, subprocess
cur=None; fns={}
for l in open(sys.argv[1]):
    l=l.strip()
    if l.startswith('SF:'): cur=l[3:]
    elif l.startswith('FNDA:'):
        n,name=l[5:].split(',',1); fns.setdefault((cur,name),0); fns[(cur,name)]+=int(n)
def dem(n):
    # legacy Rust mangling: _ZN<len><ident>...17h<hash>E
    if not n.startswith('_ZN'): return n
    i=3; parts=[]
    while i < len(n) and n[i].isdigit():
        j=i
        while n[j].isdigit(): j+=1
        k=int(n[i:j]); parts.append(n[j:j+k]); i=j+k
    if parts and re.fullmatch(r'h[0-9a-f]{16}', parts[-1]): parts.pop()
    t='::'.join(parts)
    for a,b in (('$LT$','<'),('$GT$','>'),('$u20$',' '),('$RF$','&'),('$C$',','),('$LP$','('),('$RP$',')'),('$u7b$','{'),('$u7d$','}'),('$BP$','*'),('..','::')):
        t=t.replace(a,b)
    return t
d={n:dem(n) for n in set(n for (_,n) in fns)}
seen={}
for (f,n),c in fns.items():
    k=(f, re.sub(r'::h[0-9a-f]{16}$','',d.get(n,n)))
    seen[k]=seen.get(k,0)+c
for (f,n),c in sorted(seen.items()):
    if c==0 and '/tests' not in f and 'test' not in n.lower(): print(f.replace('/repo/',''), n)
PY
python3 - "$P/all.lcov" > $V/coverage/uncovered_lines.txt <<'PY'
import sys
cur=None; miss={}
for l in open(sys.argv[1]):
    l=l.strip()
    if l.startswith('SF:'): cur=l[3:].replace('/repo/','')
    elif l.startswith('DA:'):
        n,c=l[3:].split(',')[:2]
        if int(c)==0: miss.setdefault(cur,[]).append(int(n))
for f,ls in sorted(miss.items()):
    # drop lines inside #[cfg(test)] modules (everything after the first `mod tests`/`#[cfg(test)]`)
    try:
        src=open('/repo/'+f).read().split('\n')
    except Exception:
        src=[]
    cut=len(src)+1
    for i,t in enumerate(src,1):
        if t.strip().startswith('#[cfg(test)]'): cut=i; break
    ls=[n for n in ls if n<cut]
    if not ls: continue
    out=[]; a=b=ls[0]
    for n in ls[1:]+[None]:
        if n is not None and n==b+1: b=n; continue
        out.append(str(a) if a==b else '%d-%d'%(a,b)); a=b=n
    print(f, ' '.join(out))
PY
tail -1 $V/coverage/SUMMARY.txt
wc -l $V/coverage/uncovered_functions.txt
rm -rf $P
