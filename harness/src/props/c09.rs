//! C09 Attribute admission after integrity / FINGERPRINT.  Oracle: `wire::admit`, the
//! four-line rule exactly as the property states it, over exhaustively enumerated
//! sequences of {ordinary, MI, SHA256, FP}.

use super::{decode, decoder, opts_name, report_panic};
use crate::bridge::{self, View};
use crate::ctx::Ctx;
use crate::json::{hex_trunc, J};
use crate::refstun::wire::{self, LAttr, WAttr, Zero, T_FINGERPRINT, T_MESSAGE_INTEGRITY, T_MESSAGE_INTEGRITY_SHA256, T_SOFTWARE};
use crate::rng::{fnv64, Rng};
use stun_rs::HMACKey;

const PASSWORD: &str = "c09-short-term-password";

fn seq_from_index(mut n: u64) -> Vec<u8> {
    // n enumerates sequences by length: 1 empty, 4 of length 1, 16 of length 2, ...
    let mut len = 0u32;
    let mut block = 1u64;
    while n >= block {
        n -= block;
        block *= 4;
        len += 1;
    }
    let mut v = Vec::with_capacity(len as usize);
    for _ in 0..len {
        v.push((n % 4) as u8);
        n /= 4;
    }
    v
}

fn count_upto(len: u32) -> u64 {
    (0..=len).map(|k| 4u64.pow(k)).sum()
}

fn type_of(k: u8) -> u16 {
    match k {
        0 => T_SOFTWARE,
        1 => T_MESSAGE_INTEGRITY,
        2 => T_MESSAGE_INTEGRITY_SHA256,
        _ => T_FINGERPRINT,
    }
}

/// What stands for "ordinary attribute" at wire position i: flavour 0 = SOFTWARE everywhere;
/// flavour 1 = by position SOFTWARE / unknown comprehension-optional / unknown
/// comprehension-required type (an attribute the library has no decoder for is just as
/// "ordinary" to the ordering rule).  Returns (type, value).
fn ordinary(i: usize, flavour: u8) -> (u16, Vec<u8>) {
    let v = format!("s{}", i).into_bytes();
    match (flavour, i % 3) {
        (0, _) | (_, 2) => (T_SOFTWARE, v),
        (_, 0) => (0xFFEE, v),
        _ => (0x7F77, v),
    }
}

fn ordinary_matches(a: &stun_rs::attributes::StunAttribute, i: usize, flavour: u8) -> bool {
    let (typ, val) = ordinary(i, flavour);
    match bridge::from_lib(a) {
        View::Attr(LAttr::Software(s)) => typ == T_SOFTWARE && s.as_bytes() == val.as_slice(),
        // whether the raw data is kept is C18's business
        View::Unknown { typ: t, data } => t == typ && data.map(|d| d == val).unwrap_or(true),
        _ => false,
    }
}

fn letters(seq: &[u8]) -> String {
    seq.iter().map(|k| ['o', 'M', 'S', 'F'][*k as usize]).collect()
}

/// wire bytes for a sequence; `wrong[i]` corrupts the MAC/CRC of attribute i
fn build(seq: &[u8], wrong: &[bool], txid: &[u8; 12], method: u16, class: u8, flavour: u8) -> Vec<u8> {
    let key = PASSWORD.as_bytes().to_vec();
    let attrs: Vec<WAttr> = seq
        .iter()
        .enumerate()
        .map(|(i, k)| match k {
            0 => {
                let (t, v) = ordinary(i, flavour);
                WAttr::Raw(t, v)
            }
            1 => WAttr::Mi(key.clone(), if wrong[i] { Some(0x40) } else { None }),
            2 => WAttr::Mi256(key.clone(), if wrong[i] { Some(0x01) } else { None }),
            _ => WAttr::Fp(if wrong[i] { Some(0x0000_0100) } else { None }),
        })
        .collect();
    wire::build_raw(method, class, txid, &attrs, &mut Zero)
}

/// Check one decode result against the expected list of wire indices.
fn check_result(
    ctx: &mut Ctx,
    seq: &[u8],
    bytes: &[u8],
    expect_idx: &[usize],
    got: &stun_rs::StunMessage,
    label: &str,
    opts: Option<u8>,
    flavour: u8,
) {
    let raw = wire::parse(bytes).expect("reference parses its own bytes");
    let attrs = got.attributes();
    let mut ok = attrs.len() == expect_idx.len();
    if ok {
        for (a, wi) in attrs.iter().zip(expect_idx.iter()) {
            let ra = &raw.attrs[*wi];
            let same = match seq[*wi] {
                0 => ordinary_matches(a, *wi, flavour),
                _ => a.attribute_type().as_u16() == ra.typ && bridge::tail_equals(a, &ra.value),
            };
            if !same {
                ok = false;
                break;
            }
        }
    }
    if !ok {
        let got_desc: Vec<String> = attrs
            .iter()
            .map(|a| match bridge::from_lib(a) {
                View::Attr(LAttr::Software(s)) => s,
                View::Attr(x) => x.kind_name().to_string(),
                other => format!("{:?}", other),
            })
            .collect();
        // map decoded attributes back to wire positions (greedy, in order)
        let mut got_idx: Vec<usize> = Vec::new();
        let mut next = 0usize;
        for a in attrs {
            let mut found = None;
            for wi in next..seq.len() {
                let ra = &raw.attrs[wi];
                let same = match seq[wi] {
                    0 => ordinary_matches(a, wi, flavour),
                    _ => a.attribute_type().as_u16() == ra.typ && bridge::tail_equals(a, &ra.value),
                };
                if same {
                    found = Some(wi);
                    break;
                }
            }
            match found {
                Some(wi) => {
                    got_idx.push(wi);
                    next = wi + 1;
                }
                None => break,
            }
        }
        let shape = if got_idx.len() != attrs.len() {
            "unmatched-attribute".to_string()
        } else {
            let first_bad = (0..seq.len()).find(|i| got_idx.contains(i) != expect_idx.contains(i));
            match first_bad {
                Some(i) => format!(
                    "{}-{}-after-{}",
                    ['o', 'M', 'S', 'F'][seq[i] as usize],
                    if got_idx.contains(&i) { "wrongly-admitted" } else { "wrongly-dropped" },
                    seen_before(seq, i)
                ),
                None => "order".to_string(),
            }
        };
        ctx.violation(
            &format!("admission:{}:{}", label, shape),
            format!(
                "sequence {} decoded with {} -> [{}], expected wire positions {:?}",
                letters(seq),
                opts_name(opts),
                got_desc.join(","),
                expect_idx
            ),
            J::obj()
                .set("sequence", J::s(letters(seq)))
                .set("options", J::s(opts_name(opts)))
                .set("bytes", J::s(hex_trunc(bytes, 600))),
        );
    }
}

/// which of M, S, F occur before position i ("none" if none)
fn seen_before(seq: &[u8], i: usize) -> String {
    let mut s = String::new();
    for (k, c) in [(1u8, 'M'), (2, 'S'), (3, 'F')] {
        if seq[..i].contains(&k) {
            s.push(c);
        }
    }
    if s.is_empty() {
        s.push_str("none");
    }
    s
}

/// shape of the attribute the decoder reports as failing ("position: N" in the error)
fn failing_shape(seq: &[u8], err: &str) -> String {
    let pos = err.find("position: ").and_then(|i| {
        let rest = &err[i + 10..];
        let end = rest.find(|c: char| !c.is_ascii_digit()).unwrap_or(rest.len());
        rest[..end].parse::<usize>().ok()
    });
    match pos {
        Some(i) if i < seq.len() => {
            format!("{}-after-{}", ['o', 'M', 'S', 'F'][seq[i] as usize], seen_before(seq, i))
        }
        _ => "unknown-position".into(),
    }
}

fn first_wrong_shape(seq: &[u8], wrong: &[bool]) -> String {
    match wrong.iter().position(|w| *w) {
        Some(i) => format!("{}-after-{}", ['o', 'M', 'S', 'F'][seq[i] as usize], seen_before(seq, i)),
        None => "none-wrong".into(),
    }
}

fn run_sequence(ctx: &mut Ctx, seq: &[u8], rng: &mut Rng, key: &HMACKey, flavour: u8) {
    let types: Vec<u16> = seq.iter().map(|k| type_of(*k)).collect();
    let admitted = wire::admit(&types);
    let admitted_idx: Vec<usize> = (0..seq.len()).filter(|i| admitted[*i]).collect();
    let all_idx: Vec<usize> = (0..seq.len()).collect();
    let mut txid = [0u8; 12];
    rng.fill(&mut txid);
    let method = rng.below(0x1000) as u16;
    let class = rng.below(4) as u8;
    let verifiable: Vec<usize> = (0..seq.len()).filter(|i| seq[*i] != 0).collect();
    let has_admitted_integrity = admitted_idx.iter().any(|i| seq[*i] == 1 || seq[*i] == 2);

    // variants: (name, wrong flags, expectation for validating decoders: true = must succeed)
    let mut variants: Vec<(String, Vec<bool>, bool)> = vec![("all-correct".into(), vec![false; seq.len()], true)];
    let inadmissible: Vec<usize> = verifiable.iter().copied().filter(|i| !admitted[*i]).collect();
    if !inadmissible.is_empty() {
        let mut w = vec![false; seq.len()];
        for i in &inadmissible {
            w[*i] = true;
        }
        variants.push(("inadmissible-all-wrong".into(), w, true));
        for i in &inadmissible {
            let mut w = vec![false; seq.len()];
            w[*i] = true;
            variants.push((format!("inadmissible-wrong@{}", i), w, true));
        }
    }
    for i in verifiable.iter().copied().filter(|i| admitted[*i]) {
        let mut w = vec![false; seq.len()];
        w[i] = true;
        variants.push((format!("admitted-wrong@{}", i), w, false));
    }

    for (vname, wrong, validating_ok) in &variants {
        let bytes = build(seq, wrong, &txid, method, class, flavour);
        ctx.count("variants");
        if vname.starts_with("admitted-wrong") {
            ctx.count("variants.admitted-wrong");
        } else if vname.starts_with("inadmissible") {
            ctx.count("variants.inadmissible-wrong");
        }
        for o in std::iter::once(None).chain((0u8..16).map(Some)) {
            let dec = decoder(o, Some(key));
            let res = match decode(&dec, &bytes) {
                Err(p) => {
                    report_panic(
                        ctx,
                        "decode",
                        &p,
                        J::obj().set("sequence", J::s(letters(seq))).set("bytes", J::s(hex_trunc(&bytes, 600))),
                    );
                    continue;
                }
                Ok(r) => r,
            };
            ctx.count("decodes");
            let ob = o.unwrap_or(0);
            let validation = ob & 2 != 0;
            let has_key = ob & 1 != 0;
            let not_ignore = ob & 8 != 0;
            if not_ignore {
                // every wire attribute in order (compared with validation off only)
                if !validation {
                    match res {
                        Ok((m, _)) => check_result(ctx, seq, &bytes, &all_idx, &m, "not-ignore", o, flavour),
                        Err(e) => ctx.violation(
                            "not-ignore-decode-failed",
                            format!("{} with {}: {}", letters(seq), opts_name(o), e),
                            J::obj().set("bytes", J::s(hex_trunc(&bytes, 600))),
                        ),
                    }
                }
                continue;
            }
            if !validation {
                match res {
                    Ok((m, _)) => check_result(ctx, seq, &bytes, &admitted_idx, &m, "default", o, flavour),
                    Err(e) => ctx.violation(
                        "decode-failed",
                        format!("{} ({}) with {}: {}", letters(seq), vname, opts_name(o), e),
                        J::obj().set("bytes", J::s(hex_trunc(&bytes, 600))),
                    ),
                }
                continue;
            }
            // validation on, ordering rule on
            if !has_key && has_admitted_integrity {
                // an admitted integrity attribute cannot be verified without a key:
                // the statement does not decide the outcome -> only "no panic"
                ctx.count("either.validation-without-key");
                continue;
            }
            match (res, *validating_ok) {
                (Ok((m, _)), true) => check_result(ctx, seq, &bytes, &admitted_idx, &m, "validated", o, flavour),
                (Err(e), true) => ctx.violation(
                    &format!("validation-of-non-admitted:{}", failing_shape(seq, &e)),
                    format!(
                        "{} variant {}: decoding with {} failed although every ADMITTED checksum is right: {}",
                        letters(seq),
                        vname,
                        opts_name(o),
                        e
                    ),
                    J::obj()
                        .set("sequence", J::s(letters(seq)))
                        .set("variant", J::s(vname.clone()))
                        .set("bytes", J::s(hex_trunc(&bytes, 600))),
                ),
                (Ok(_), false) => ctx.violation(
                    &format!("admitted-wrong-accepted:{}", first_wrong_shape(seq, wrong)),
                    format!(
                        "{} variant {}: an admitted attribute with a wrong MAC/CRC passed validation ({})",
                        letters(seq),
                        vname,
                        opts_name(o)
                    ),
                    J::obj()
                        .set("sequence", J::s(letters(seq)))
                        .set("variant", J::s(vname.clone()))
                        .set("bytes", J::s(hex_trunc(&bytes, 600))),
                ),
                (Err(_), false) => {}
            }
        }
    }
    if ctx.want_sample() && seq.len() >= 4 && rng.chance(1, 50) {
        let b = build(seq, &vec![false; seq.len()], &txid, method, class, flavour);
        ctx.sample(
            J::obj()
                .set("sequence", J::s(letters(seq)))
                .set("admitted_positions", J::arr(admitted_idx.iter().map(|i| J::u(*i))))
                .set("variants", J::arr(variants.iter().map(|v| J::s(v.0.clone()))))
                .set("bytes", J::s(hex_trunc(&b, 160))),
        );
    }
    let nontrivial = seq.iter().any(|k| *k != 0);
    let mut h = seq.to_vec();
    h.push(0x10 + flavour);
    ctx.eval(if nontrivial { Some(fnv64(&h)) } else { None });
}

pub fn run(ctx: &mut Ctx) {
    let key = HMACKey::new_short_term(PASSWORD).expect("short-term key");
    let exhaustive_len: u32 = if ctx.quick() { 7 } else { 9 };
    let total = count_upto(exhaustive_len);
    ctx.cases("sequences", total, |ctx, case, rng| {
        let seq = seq_from_index(case);
        ctx.count("sequences.enumerated");
        run_sequence(ctx, &seq, rng, &key, 0);
    });
    // the same enumeration with unknown attribute types standing for "ordinary"
    let unk_len: u32 = if ctx.quick() { 6 } else { 8 };
    let unk_total = count_upto(unk_len);
    ctx.cases("sequences-unknown-ordinary", unk_total, |ctx, case, rng| {
        let seq = seq_from_index(case);
        if !seq.contains(&0) {
            return;
        }
        ctx.count("sequences.enumerated-unknown-ordinary");
        run_sequence(ctx, &seq, rng, &key, 1);
    });
    ctx.exhaustive.insert(
        format!("all {} sequences of length <= {} over {{ordinary, MI, SHA256, FP}}", total - 1, exhaustive_len),
        ctx.only.is_none(),
    );
    // beyond the exhaustive bound: seeded sample of longer sequences
    let (lo, hi) = if ctx.quick() { (8u64, 10u64) } else { (10, 14) };
    let n = ctx.n(8_000, 400_000);
    ctx.cases("long-sequences", n, |ctx, _case, rng| {
        let len = rng.range(lo, hi) as usize;
        // bias towards the interesting kinds
        let seq: Vec<u8> = (0..len).map(|_| *rng.pick(&[0u8, 0, 1, 2, 3, 3])).collect();
        ctx.count("sequences.sampled-long");
        let flavour = rng.below(2) as u8;
        run_sequence(ctx, &seq, rng, &key, flavour);
    });
}
