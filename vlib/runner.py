"""Build + shard supervisor, merge, known-findings filter, evidence writer."""
import json
import os
import shutil
import signal
import subprocess
import sys
import time

import props as P

ROOT = os.path.dirname(os.path.dirname(os.path.abspath(__file__)))
HARNESS = os.path.join(ROOT, "harness")
RUN = os.path.join(ROOT, ".run")
EVIDENCE = os.path.join(ROOT, "evidence")
REPLAY = os.path.join(ROOT, "replay")
KNOWN = os.path.join(ROOT, "KNOWN_FINDINGS.txt")
NSHARDS = int(os.environ.get("VERIF_SHARDS", "16"))

ENV = dict(os.environ)
ENV["CARGO_NET_OFFLINE"] = "true"
ENV["RUST_BACKTRACE"] = "0"
ENV.pop("RUSTFLAGS", None)


class Inconclusive(Exception):
    pass


def say(*a):
    print(*a, flush=True)


# --------------------------------------------------------------------------------------
# build

def target_dir(profile):
    if profile == "asan":
        return os.path.join(HARNESS, "target-asan")
    return os.path.join(HARNESS, "target")


def binary(profile):
    if profile == "dev":
        return os.path.join(HARNESS, "target", "debug", "harness")
    if profile == "release":
        return os.path.join(HARNESS, "target", "release", "harness")
    if profile == "asan":
        return os.path.join(HARNESS, "target-asan", "x86_64-unknown-linux-gnu", "release", "harness")
    raise ValueError(profile)


def ensure_lock():
    """Cargo.lock of the harness is a copy of /repo/Cargo.lock (plus the harness itself);
    refresh it if it is missing so that resolution never needs the network."""
    lock = os.path.join(HARNESS, "Cargo.lock")
    if not os.path.exists(lock):
        src = "/repo/Cargo.lock"
        if os.path.exists(src):
            shutil.copy(src, lock)


def build(profile):
    ensure_lock()
    env = dict(ENV)
    if profile == "dev":
        cmd = ["cargo", "build", "--offline", "--quiet"]
    elif profile == "release":
        cmd = ["cargo", "build", "--offline", "--quiet", "--release"]
    elif profile == "asan":
        env["RUSTFLAGS"] = "-Zsanitizer=address -Cforce-frame-pointers=yes"
        env["CARGO_TARGET_DIR"] = target_dir("asan")
        cmd = ["cargo", "+nightly", "build", "--offline", "--quiet", "--release",
               "--target", "x86_64-unknown-linux-gnu"]
    else:
        raise ValueError(profile)
    t0 = time.time()
    r = subprocess.run(cmd, cwd=HARNESS, env=env, stdout=subprocess.PIPE, stderr=subprocess.STDOUT, text=True)
    if r.returncode != 0:
        tail = "\n".join(r.stdout.strip().splitlines()[-40:])
        raise Inconclusive("harness build (%s) failed:\n%s" % (profile, tail))
    return time.time() - t0


# --------------------------------------------------------------------------------------
# shards

def cpu_seconds(pid):
    try:
        with open("/proc/%d/stat" % pid) as f:
            parts = f.read().rsplit(")", 1)[1].split()
        ticks = int(parts[11]) + int(parts[12])
        return ticks / os.sysconf("SC_CLK_TCK")
    except Exception:
        return None


def read_progress(outdir, shard):
    try:
        with open(os.path.join(outdir, "progress-%d.txt" % shard)) as f:
            return f.read().strip()
    except Exception:
        return ""


def run_shards(prop, tier, seed, profile, scale, wall_limit, cpu_stall_limit=None, extra_env=None, launcher=None):
    """Runs NSHARDS processes; returns (shard_jsons, crashes, stalls)."""
    outdir = os.path.join(RUN, prop, tier, profile)
    shutil.rmtree(outdir, ignore_errors=True)
    os.makedirs(outdir, exist_ok=True)
    procs = []
    env = dict(ENV)
    if extra_env:
        env.update(extra_env)
    for i in range(NSHARDS):
        cmd = [binary(profile), "run", "--prop", prop, "--tier", tier, "--seed", str(seed),
               "--shard", "%d/%d" % (i, NSHARDS), "--out", outdir, "--scale", str(scale),
               "--profile-name", profile]
        if launcher:
            cmd = launcher(cmd)
        log = open(os.path.join(outdir, "log-%d.txt" % i), "w")
        p = subprocess.Popen(cmd, cwd=HARNESS, env=env, stdout=log, stderr=subprocess.STDOUT)
        procs.append({"p": p, "i": i, "log": log, "last_prog": None, "cpu_at_prog": 0.0})
    t0 = time.time()
    stalls = []
    timed_out = False
    while True:
        alive = [x for x in procs if x["p"].poll() is None]
        if not alive:
            break
        if time.time() - t0 > wall_limit:
            timed_out = True
            for x in alive:
                x["p"].kill()
            break
        if cpu_stall_limit:
            for x in alive:
                prog = read_progress(outdir, x["i"])
                cpu = cpu_seconds(x["p"].pid)
                if cpu is None:
                    continue
                if prog != x["last_prog"]:
                    x["last_prog"] = prog
                    x["cpu_at_prog"] = cpu
                elif cpu - x["cpu_at_prog"] > cpu_stall_limit:
                    stalls.append((x["i"], prog, cpu - x["cpu_at_prog"]))
                    x["p"].kill()
        time.sleep(0.2)
    results, crashes = [], []
    for x in procs:
        x["p"].wait()
        x["log"].close()
        rc = x["p"].returncode
        path = os.path.join(outdir, "shard-%d.json" % x["i"])
        logtxt = open(os.path.join(outdir, "log-%d.txt" % x["i"])).read()
        if any(s[0] == x["i"] for s in stalls):
            continue
        if rc == 0 and os.path.exists(path):
            with open(path) as f:
                results.append(json.load(f))
        elif rc == 2 and "INCONCLUSIVE" in logtxt:
            raise Inconclusive("shard %d (%s): %s" % (x["i"], profile, logtxt.strip().splitlines()[-1]))
        elif timed_out:
            raise Inconclusive("wall-clock watchdog (%ds) fired for %s/%s/%s" % (wall_limit, prop, tier, profile))
        else:
            crashes.append({"shard": x["i"], "rc": rc, "progress": read_progress(outdir, x["i"]),
                            "log": logtxt[-2000:], "profile": profile})
    return outdir, results, crashes, stalls


def merge_hashes(outdir, kind):
    files = [os.path.join(outdir, f) for f in sorted(os.listdir(outdir)) if f.startswith(kind + "-") and f.endswith(".bin")]
    if not files:
        return 0, []
    return None, files


def union_count(files):
    if not files:
        return 0
    r = subprocess.run([binary("dev") if os.path.exists(binary("dev")) else binary("release"), "merge-hashes"] + files,
                       stdout=subprocess.PIPE, text=True)
    try:
        return int(r.stdout.strip())
    except Exception:
        return 0


# --------------------------------------------------------------------------------------
# known findings

def load_known():
    findings, fixed = [], []
    if os.path.exists(KNOWN):
        for line in open(KNOWN):
            line = line.strip()
            if line.startswith("finding:"):
                body = line[len("finding:"):].strip()
                d = {}
                rest = []
                for tok in body.split(" "):
                    if "=" in tok and tok.split("=", 1)[0] in ("property", "sig") and tok.split("=", 1)[0] not in d:
                        k, v = tok.split("=", 1)
                        d[k] = v
                    else:
                        rest.append(tok)
                d["text"] = " ".join(rest)
                findings.append(d)
            elif line.startswith("fixed:"):
                fixed.append(line)
    return findings, fixed


# --------------------------------------------------------------------------------------
# main check

def run_check(prop, tier, seed):
    meta = P.PROPS[prop]
    t0 = time.time()
    profiles = list(meta.get("profiles", ["dev"]))
    if tier == "thorough":
        profiles += meta.get("thorough_profiles", [])
    wall = 900 if tier == "quick" else 6 * 3600
    build_s = {}
    all_results, crashes, stalls, outdirs = [], [], [], []
    for prof in profiles:
        if prof in ("miri", "fuzz"):
            continue
        build_s[prof] = round(build(prof), 1)
    # the union-counting helper needs one native binary
    for prof in profiles:
        if prof == "miri":
            res = run_miri(prop, tier, seed, meta)
            all_results += res
            continue
        if prof == "fuzz":
            all_results += run_fuzz(prop, seed, meta)
            continue
        scale = meta.get("scale", {}).get(prof, 1.0)
        extra_env = None
        if prof == "asan":
            extra_env = {"ASAN_OPTIONS": "halt_on_error=1:abort_on_error=1:detect_leaks=1"}
        outdir, res, cr, st = run_shards(prop, tier, seed, prof, scale, wall,
                                         cpu_stall_limit=meta.get("cpu_stall_limit"), extra_env=extra_env)
        outdirs.append(outdir)
        all_results += res
        crashes += cr
        stalls += [(prof,) + s for s in st]
    return finish(prop, tier, seed, meta, all_results, crashes, stalls, outdirs, build_s, t0, profiles)


def run_miri(prop, tier, seed, meta):
    """Miri supplement: a few hundred cases spread over NSHARDS `cargo miri run` processes."""
    outdir = os.path.join(RUN, prop, tier, "miri")
    shutil.rmtree(outdir, ignore_errors=True)
    os.makedirs(outdir, exist_ok=True)
    env = dict(ENV)
    env["MIRIFLAGS"] = "-Zmiri-disable-isolation"
    env["CARGO_TARGET_DIR"] = os.path.join(HARNESS, "target-miri")
    procs = []
    scale = meta.get("scale", {}).get("miri", 0.001)
    for i in range(NSHARDS):
        # the Miri pass always interprets a scaled-down QUICK workload (about four orders of
        # magnitude slower than native), whatever the tier of the surrounding run
        cmd = ["cargo", "+nightly", "miri", "run", "--offline", "--quiet", "--", "run", "--prop", prop,
               "--tier", "quick", "--seed", str(seed), "--shard", "%d/%d" % (i, NSHARDS), "--out", outdir,
               "--scale", str(scale), "--profile-name", "miri", "--miri"]
        log = open(os.path.join(outdir, "log-%d.txt" % i), "w")
        procs.append((i, subprocess.Popen(cmd, cwd=HARNESS, env=env, stdout=log, stderr=subprocess.STDOUT), log))
        if i == 0:
            # let the first process build the sysroot / crate before the others start
            t0 = time.time()
            while procs[0][1].poll() is None and time.time() - t0 < 600 and not os.path.exists(
                    os.path.join(outdir, "progress-0.txt")):
                time.sleep(0.5)
    res = []
    for i, p, log in procs:
        try:
            p.wait(timeout=4 * 3600)
        except subprocess.TimeoutExpired:
            p.kill()
            raise Inconclusive("miri shard %d timed out" % i)
        log.close()
        txt = open(os.path.join(outdir, "log-%d.txt" % i)).read()
        path = os.path.join(outdir, "shard-%d.json" % i)
        if "Undefined Behavior" in txt or "error: unsupported operation" in txt:
            res.append({"property": prop, "profile": "miri", "evaluations": 0, "counters": {}, "samples": [],
                        "notes": [], "exhaustive": {}, "violation_counts": {"miri-ub": 1},
                        "violations": [{"signature": "miri:" + first_ub_line(txt), "detail": txt[-3000:],
                                        "stream": "miri", "case": i, "witness": {"shard": i}}]})
        elif p.returncode == 0 and os.path.exists(path):
            res.append(json.load(open(path)))
        else:
            raise Inconclusive("miri shard %d failed rc=%s: %s" % (i, p.returncode, txt[-800:]))
    return res


def run_fuzz(prop, seed, meta):
    """Coverage-guided supplement (libFuzzer + ASan through cargo-fuzz): same oracle as the
    harness (no panic, no sanitizer report, size post-conditions), inputs found by coverage
    feedback.  16 jobs, wall-time budget from props.py; a crash is a violation whose replay
    is the artifact file."""
    fdir = os.path.join(HARNESS, "fuzz")
    outdir = os.path.join(RUN, prop, "thorough", "fuzz")
    shutil.rmtree(outdir, ignore_errors=True)
    corpus = os.path.join(outdir, "corpus")
    os.makedirs(corpus, exist_ok=True)
    art = os.path.join(fdir, "artifacts", "decode")
    shutil.rmtree(art, ignore_errors=True)
    lock = os.path.join(fdir, "Cargo.lock")
    if not os.path.exists(lock) and os.path.exists("/repo/Cargo.lock"):
        shutil.copy("/repo/Cargo.lock", lock)
    # seed corpus: published vectors and reference-built messages from the harness
    subprocess.run([binary("dev"), "corpus", "--out", corpus, "--seed", str(seed)], cwd=HARNESS, env=ENV,
                   stdout=subprocess.DEVNULL, stderr=subprocess.DEVNULL)
    secs = int(meta.get("fuzz_seconds", 120))
    cmd = ["cargo", "+nightly", "fuzz", "run", "decode", corpus, "--", "-max_total_time=%d" % secs, "-timeout=10",
           "-max_len=8192", "-jobs=%d" % NSHARDS, "-workers=%d" % NSHARDS, "-seed=%d" % (int(seed) + 1)]
    env = dict(ENV)
    r = subprocess.run(cmd, cwd=outdir if False else HARNESS, env=env, stdout=subprocess.PIPE, stderr=subprocess.STDOUT, text=True,
                       timeout=secs * 4 + 900)
    execs, logs = 0, ""
    for f in sorted(os.listdir(HARNESS)):
        if f.startswith("fuzz-") and f.endswith(".log"):
            t = open(os.path.join(HARNESS, f), errors="replace").read()
            logs += t[-3000:]
            for line in t.splitlines():
                if line.startswith("Done ") and " runs in " in line:
                    try:
                        execs += int(line.split()[1])
                    except Exception:
                        pass
            os.remove(os.path.join(HARNESS, f))
    crashes = sorted(os.listdir(art)) if os.path.isdir(art) else []
    res = {"property": prop, "profile": "fuzz", "shard": 0, "evaluations": execs, "counters": {"fuzz.executions": execs, "fuzz.jobs": NSHARDS},
           "samples": [], "notes": ["libFuzzer+ASan supplement: %d executions in %d jobs x %d s" % (execs, NSHARDS, secs)],
           "exhaustive": {}, "violation_counts": {}, "violations": []}
    if crashes:
        panic = ""
        for line in (r.stdout + logs).splitlines():
            if "panicked at" in line or "ERROR: AddressSanitizer" in line or "ERROR: libFuzzer" in line:
                panic = line.strip()
                break
        loc = panic
        if "/stun-" in loc:
            loc = "panic@" + loc[loc.index("/stun-") + 1:]
        sig = "fuzz-crash:" + "".join(c if not c.isdigit() else "" for c in loc)[:100].replace(" ", "_")
        keep = os.path.join(REPLAY, "%s-fuzz-%s" % (prop, crashes[0]))
        os.makedirs(REPLAY, exist_ok=True)
        shutil.copy(os.path.join(art, crashes[0]), keep)
        res["violation_counts"][sig] = len(crashes)
        res["violations"].append({"signature": sig, "detail": "libFuzzer found a crashing input (%s); artifact copied to %s; first byte = decoder/client options, rest = message bytes" % (panic, keep),
                                  "stream": "fuzz", "case": 0, "witness": {"artifact": keep, "hex": open(keep, "rb").read()[:600].hex()}})
    elif r.returncode != 0:
        raise Inconclusive("cargo fuzz failed (rc=%s): %s" % (r.returncode, (r.stdout or "")[-800:]))
    return [res]


def first_ub_line(txt):
    for line in txt.splitlines():
        if "Undefined Behavior" in line or "unsupported operation" in line:
            return "".join(c for c in line if not c.isdigit())[:120].strip().replace(" ", "_")
    return "ub"


def uncovered_pub_fns():
    """pub fn names of stun-rs/src (outside test modules) that the C19 API table never mentions"""
    import re
    table = ""
    for f in ("c19.rs",):
        try:
            table += open(os.path.join(HARNESS, "src", "props", f)).read()
        except Exception:
            pass
    try:
        table += open(os.path.join(HARNESS, "src", "bridge.rs")).read()
    except Exception:
        pass
    names = {}
    for root, _d, files in os.walk("/repo/stun-rs/src"):
        for fn in files:
            if not fn.endswith(".rs"):
                continue
            path = os.path.join(root, fn)
            try:
                text = open(path).read()
            except Exception:
                continue
            text = text.split("#[cfg(test)]")[0]
            for m in re.finditer(r"^\s*pub fn ([a-z_0-9]+)", text, re.M):
                names.setdefault(m.group(1), os.path.relpath(path, "/repo"))
    internal = {"decode", "encode", "post_encode", "register", "check_buffer_boundaries", "fill_padding_value", "padding",
                "sha256", "opaque_string_prepapre", "opaque_string_enforce", "raw_value", "raw_value_mut", "context",
                "decoded_message", "encoded_message", "pos", "hmac_sha"}
    out = []
    for n, where in sorted(names.items()):
        if n in internal:
            continue
        if not re.search(r"[.:]%s\b" % re.escape(n), table):
            out.append("%s (%s)" % (n, where))
    return out


def finish(prop, tier, seed, meta, results, crashes, stalls, outdirs, build_s, t0, profiles):
    findings, _fixed = load_known()
    known_sigs = {f["sig"]: f for f in findings if f.get("property") == prop}

    evaluations = sum(r.get("evaluations", 0) for r in results)
    counters = {}
    for r in results:
        for k, v in r.get("counters", {}).items():
            counters[k] = counters.get(k, 0) + v
    samples = []
    for r in results:
        for s in r.get("samples", []):
            if len(samples) < 8:
                samples.append(s)
    notes = []
    for r in results:
        for n in r.get("notes", []):
            if n not in notes:
                notes.append(n)
    exhaustive = {}
    for r in results:
        for k, v in r.get("exhaustive", {}).items():
            exhaustive[k] = exhaustive.get(k, True) and v
    dfiles, sfiles = [], []
    for od in outdirs:
        for f in sorted(os.listdir(od)):
            if f.startswith("distinct-") and f.endswith(".bin"):
                dfiles.append(os.path.join(od, f))
            if f.startswith("states-") and f.endswith(".bin"):
                sfiles.append(os.path.join(od, f))
    distinct = union_count(dfiles)
    states = union_count(sfiles)

    # violations grouped by signature
    by_sig = {}
    for r in results:
        for v in r.get("violations", []):
            v = dict(v)
            v["profile"] = r.get("profile", "dev")
            v["shard"] = r.get("shard", 0)
            by_sig.setdefault(v["signature"], v)
        for sig, n in r.get("violation_counts", {}).items():
            by_sig.setdefault(sig, {"signature": sig, "detail": "", "stream": "?", "case": 0, "witness": {},
                                    "profile": r.get("profile", "dev"), "shard": r.get("shard", 0)})
            by_sig[sig]["count"] = by_sig[sig].get("count", 0) + n

    crash_is_violation = meta.get("crash_is_violation", False)
    inconclusive = []
    for c in crashes:
        if crash_is_violation:
            stream = (c["progress"].split(" ") + ["?"])[0]
            sig = "abort:%s:%s" % (c["profile"], stream)
            by_sig.setdefault(sig, {"signature": sig, "count": 1, "profile": c["profile"], "shard": c["shard"],
                                    "detail": "shard died (rc=%s) while executing case `%s`: %s" % (
                                        c["rc"], c["progress"], c["log"][-600:]),
                                    "stream": stream, "case": int((c["progress"].split(" ") + ["0", "0"])[1] or 0),
                                    "witness": {"progress": c["progress"]}})
        else:
            inconclusive.append("shard %d (%s) died rc=%s at `%s`: %s" % (
                c["shard"], c["profile"], c["rc"], c["progress"], c["log"][-400:]))
    for (prof, shard, prog, cpu) in stalls:
        sig = "nontermination:%s" % (prog.split(" ") + ["?"])[0]
        by_sig.setdefault(sig, {"signature": sig, "count": 1, "profile": prof, "shard": shard,
                                "detail": "a single case burned %.0f s of CPU without finishing (case `%s`)" % (cpu, prog),
                                "stream": (prog.split(" ") + ["?"])[0],
                                "case": int((prog.split(" ") + ["0", "0"])[1] or 0), "witness": {"progress": prog}})

    new_violations, known_hits = [], []
    for sig, v in sorted(by_sig.items()):
        if sig in known_sigs:
            known_hits.append((sig, known_sigs[sig], v))
        else:
            new_violations.append(v)

    # minimum relevance: a run that observed nothing is inconclusive
    for key, minimum in meta.get("min_counters", {}).items():
        tier_min = minimum if tier == "quick" else minimum
        if counters.get(key, 0) < tier_min and not new_violations:
            inconclusive.append("monitor observed too few relevant events: %s=%d < %d" % (key, counters.get(key, 0), tier_min))
    if evaluations == 0 and not new_violations:
        inconclusive.append("no case was evaluated")

    wall = time.time() - t0
    os.makedirs(EVIDENCE, exist_ok=True)
    os.makedirs(REPLAY, exist_ok=True)
    replay_paths = []
    for k, v in enumerate(new_violations):
        path = os.path.join(REPLAY, "%s-%d.json" % (prop, k))
        with open(path, "w") as f:
            json.dump({"property": prop, "tier": tier, "seed": seed, "nshards": NSHARDS, "shard": v.get("shard", 0),
                       "profile": v.get("profile", "dev"), "stream": v.get("stream"), "case": v.get("case"),
                       "signature": v["signature"], "detail": v.get("detail", ""), "count": v.get("count", 1),
                       "witness": v.get("witness", {}),
                       "replay_cmd": "./check %s --replay %s" % (prop, path)}, f, indent=1, ensure_ascii=False)
        replay_paths.append(path)

    coverage = {
        "evaluations": int(evaluations),
        "distinct_nontrivial": int(distinct),
        "rule": meta["rule"],
        "samples": samples if samples else [{"note": "no sample recorded"}],
        "states": int(states),
        "counters": counters,
        "profiles": profiles,
        "shards": NSHARDS,
        "build_s": build_s,
        "notes": notes,
        "exhaustive_parts": exhaustive,
        "known_findings_observed": [{"sig": s, "count": v.get("count", 1)} for s, _f, v in known_hits],
        "violation_signatures": [v["signature"] for v in new_violations],
    }
    if meta.get("exhaustive_all") and exhaustive and all(exhaustive.values()):
        coverage["exhaustive"] = True
    if prop == "C19":
        coverage["uncovered_pub_fns"] = uncovered_pub_fns()
    if inconclusive:
        coverage["inconclusive"] = inconclusive
    ev = {
        "property_id": prop,
        "tier": tier,
        "seed": int(seed),
        "level": meta.get("level", "exploration"),
        "coverage": coverage,
        "assumptions": meta.get("assumptions", []) + P.COMMON_ASSUMPTIONS,
        "wall_s": round(wall, 2),
        "violations": len(new_violations),
    }
    with open(os.path.join(EVIDENCE, "%s.json" % prop), "w") as f:
        json.dump(ev, f, indent=1, ensure_ascii=False)

    for sig, f, v in known_hits:
        say("KNOWN-FINDING: property=%s sig=%s (%d occurrences) %s" % (prop, sig, v.get("count", 1), f.get("text", "")))
    for v, path in zip(new_violations, replay_paths):
        say("VIOLATION property=%s replay=%s" % (prop, path))
        say("  signature=%s count=%s profile=%s" % (v["signature"], v.get("count", 1), v.get("profile")))
        say("  %s" % (v.get("detail", "")[:600].replace("\n", " ")))
    say("%s %s seed=%s: %d evaluations, %d distinct non-trivial, %d states, %d new violation signature(s), %d known, %.1fs" % (
        prop, tier, seed, evaluations, distinct, states, len(new_violations), len(known_hits), wall))
    if new_violations:
        return 1
    if inconclusive:
        for m in inconclusive:
            say("INCONCLUSIVE property=%s %s" % (prop, m))
        return 2
    return 0


def replay(prop, path):
    with open(path) as f:
        r = json.load(f)
    prof = r.get("profile", "dev")
    if prof not in ("dev", "release"):
        prof = "dev"
    build(prof)
    cmd = [binary(prof), "run", "--prop", prop, "--tier", r.get("tier", "quick"), "--seed", str(r.get("seed", 1)),
           "--shard", "%d/%d" % (r.get("shard", 0), r.get("nshards", NSHARDS)),
           "--only", "%s:%s" % (r.get("stream"), r.get("case")), "--verbose"]
    say("replaying: " + " ".join(cmd))
    p = subprocess.run(cmd, cwd=HARNESS, env=ENV)
    return 0 if p.returncode == 0 else p.returncode


def main(argv):
    if not argv or argv[0] in ("-h", "--help"):
        say(__doc__)
        return 2
    if argv[0] == "--setup":
        try:
            for prof in ("dev", "release"):
                s = build(prof)
                say("built harness (%s) in %.1fs" % (prof, s))
            r = subprocess.run([binary("dev"), "selftest"], cwd=HARNESS, env=ENV)
            return r.returncode
        except Inconclusive as e:
            say("INCONCLUSIVE setup: %s" % e)
            return 2
    if argv[0] == "--list":
        for k in sorted(P.PROPS):
            say(k, P.PROPS[k]["title"])
        return 0
    prop = argv[0]
    if prop not in P.PROPS:
        say("unknown property %s" % prop)
        return 2
    if "--replay" in argv:
        return replay(prop, argv[argv.index("--replay") + 1])
    tier = None
    for a in argv[1:]:
        if a in ("quick", "thorough"):
            tier = a
    if tier is None:
        tier = os.environ.get("VERIF_TIER", "quick")
        if tier not in ("quick", "thorough"):
            tier = "quick"
    try:
        seed = int(os.environ.get("VERIF_SEED", "1"))
    except ValueError:
        seed = 1
    try:
        return run_check(prop, tier, seed)
    except Inconclusive as e:
        say("INCONCLUSIVE property=%s %s" % (prop, e))
        # still leave a schema-valid evidence file describing the inconclusive run
        os.makedirs(EVIDENCE, exist_ok=True)
        meta = P.PROPS[prop]
        ev = {"property_id": prop, "tier": tier, "seed": seed, "level": "other",
              "coverage": {"explanation": "INCONCLUSIVE: %s" % e, "rule": meta["rule"]},
              "assumptions": meta.get("assumptions", []), "wall_s": 0.0, "violations": 0}
        with open(os.path.join(EVIDENCE, "%s.json" % prop), "w") as f:
            json.dump(ev, f, indent=1)
        return 2
