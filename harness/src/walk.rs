//! Seeded scheduler: drives a `Sim` through a random but replayable history of application
//! sends, network deliveries (loss, duplication, reordering, delay), timer calls (exact,
//! early, late, far beyond the deadline), idle jumps and hostile probes, followed by a
//! drain phase and post-mortem probes.

use crate::cred::Cred;
use crate::ctx::Ctx;
use crate::gen;
use crate::mutate;
use crate::refstun::wire::{self, LAttr};
use crate::rng::Rng;
use crate::server::{Fp, Integ, LtServer, Plan, Responder};
use crate::sim::{Ev, Id, Mech, OpResult, Sim, SimCfg, TxState};
use stun_agent::StunAttributes;

#[derive(Clone, Debug)]
pub struct Profile {
    pub monitors: u32,
    pub steps: (u64, u64),
    pub max_concurrent: usize,
    /// weights: send, indication, deliver, fire, early timer, idle, probes
    pub w_send: u32,
    pub w_indication: u32,
    pub w_deliver: u32,
    pub w_fire: u32,
    pub w_early: u32,
    pub w_idle: u32,
    pub w_probe: u32,
    /// per mille of requests that are never answered
    pub silence_pm: u32,
    /// per mille of answers that are faulty (bad auth / fingerprint) before or instead of a good one
    pub fault_pm: u32,
    /// per mille of timer fires that are late
    pub late_pm: u32,
    /// allow idle jumps around the 600 s staleness boundary
    pub long_idle: bool,
    /// response delay classes: true = mostly shorter than the RTO (RTT sampling), false = anything
    pub fast_responses: bool,
    /// push against the outstanding limit
    pub hammer_limit: bool,
    /// application attribute lists with duplicates and pre-populated credential / integrity /
    /// fingerprint attributes (C13)
    pub rich_app: bool,
}

impl Profile {
    pub fn base(monitors: u32) -> Profile {
        Profile {
            monitors,
            steps: (60, 160),
            max_concurrent: 4,
            w_send: 20,
            w_indication: 3,
            w_deliver: 30,
            w_fire: 25,
            w_early: 4,
            w_idle: 4,
            w_probe: 8,
            silence_pm: 250,
            fault_pm: 250,
            late_pm: 400,
            long_idle: false,
            fast_responses: false,
            hammer_limit: false,
            rich_app: false,
        }
    }
}

/// virtual-time cap (ns): histories are cut here to keep all arithmetic far from overflow
pub const TIME_CAP: u64 = 100_000_000_000_000_000;

pub fn gen_cfg(rng: &mut Rng, mech: Option<Mech>, limits: &[usize]) -> SimCfg {
    let reliable = if rng.chance(1, 3) { Some(*rng.pick(&[1_000_000u64, 50_000_000, 1_000_000_000, 7_900_000_000, 39_500_000_000])) } else { None };
    let rto_ns = match rng.below(6) {
        0 => 500_000_000,
        1 => 1_000_000 + rng.below(9_000_000),
        2 => 100_000_000 + rng.below(900_000_000),
        3 => 1_000_000_000 + rng.below(2_000_000_000),
        4 => 1_000_000 * (1 + rng.below(3000)),
        _ => 500_000_000,
    };
    let granularity_ns = *rng.pick(&[1_000u64, 1_000_000, 1_000_000, 5_000_000, 20_000_000]);
    let (rm, rc) = if rng.chance(1, 3) { (16, 7) } else { (1 + rng.below(32) as u32, 1 + rng.below(10) as u32) };
    let mech = mech.unwrap_or_else(|| match rng.below(8) {
        0 | 1 => Mech::None,
        2 => Mech::ShortTerm(None),
        3 => Mech::ShortTerm(Some(false)),
        4 => Mech::ShortTerm(Some(true)),
        _ => Mech::LongTerm,
    });
    // passwords: mostly plain; sometimes exactly at / next to the 64-byte HMAC block size;
    // sometimes a string whose OpaqueString-enforced form differs from what the application passes
    let (password_raw, password) = match rng.below(12) {
        0 | 1 => {
            let l = *rng.pick(&[63usize, 64, 64, 65, 128]);
            let p = gen::stable_string(rng, l, l);
            (p.clone(), p)
        }
        2 | 3 => gen::opaque_string_case(rng, 4, 40),
        _ => {
            let p = format!("pw-{}", gen::stable_string(rng, 8, 24));
            (p.clone(), p)
        }
    };
    SimCfg {
        reliable,
        rto_ns,
        granularity_ns,
        rm,
        rc,
        mech,
        user: gen::stable_string(rng, 1, 24),
        password,
        password_raw,
        fingerprint: rng.chance(1, 3),
        max_transactions: *rng.pick(limits),
    }
}

#[derive(Clone, Debug)]
pub struct Packet {
    pub at: u64,
    pub bytes: Vec<u8>,
    pub label: String,
    /// server state to adopt if the client answers this packet with Retry
    pub lt_on_retry: Option<LtServer>,
    pub nonce_on_retry: Option<String>,
}

pub struct Walk<'a> {
    pub sim: Sim,
    pub resp: Responder,
    pub net: Vec<Packet>,
    pub p: &'a Profile,
    pub st_prefer_sha: bool,
    pub probed: Vec<Id>,
    pub requests_seen: usize,
    pub cred: Cred,
}

pub const APP_KEY: &str = "application-own-key";

/// Application attribute list: (library object, attributes in insertion order, description)
pub fn app_attrs(rng: &mut Rng, max: usize, rich: bool) -> (StunAttributes, Vec<LAttr>, String) {
    let mut a = StunAttributes::default();
    let mut list: Vec<LAttr> = Vec::new();
    let cfg = gen::GenCfg { max_blob: 40 };
    let app_key = stun_rs::HMACKey::new_short_term(APP_KEY).ok();
    let n = rng.below(max as u64 + 1);
    for _ in 0..n {
        let l = if rich {
            match rng.below(10) {
                // credential attributes the mechanism must override
                0 => LAttr::UserName(gen::stable_string(rng, 1, 12)),
                1 => LAttr::realm(&format!("app-realm-{}", rng.below(9))),
                2 => LAttr::nonce(&format!("app-nonce-{}", rng.below(9))),
                3 => match rng.below(3) {
                    0 => LAttr::UserHash { user: "app-user".into(), realm: "app-realm".into() },
                    1 => LAttr::PasswordAlgorithm { alg: 1 + rng.below(2) as u16, params: vec![] },
                    _ => LAttr::PasswordAlgorithms(vec![(2, vec![]), (1, vec![])]),
                },
                4 => rng.pick(&[LAttr::MessageIntegrity, LAttr::MessageIntegritySha256, LAttr::Fingerprint]).clone(),
                _ => {
                    let k = rng.usize_below(gen::ORDINARY_KINDS);
                    gen::attr_of_kind(rng, k, &cfg)
                }
            }
        } else {
            let k = *rng.pick(&[7usize, 14, 12, 13, 15, 17, 20, 21, 16, 34, 30]);
            gen::attr_of_kind(rng, k, &cfg)
        };
        if let Ok(x) = crate::bridge::to_lib(&l, app_key.as_ref()) {
            a.add(x);
            list.push(l);
        }
    }
    let names: Vec<&str> = list.iter().map(|l| l.kind_name()).collect();
    let desc = names.join(",");
    (a, list, desc)
}

impl<'a> Walk<'a> {
    pub fn new(cfg: SimCfg, p: &'a Profile, rng: &mut Rng) -> Result<Walk<'a>, String> {
        let sim = Sim::new(cfg.clone(), p.monitors)?;
        let cred = Cred::new(p.monitors, &cfg.mech);
        Ok(Walk { sim, resp: Responder::new(&cfg), net: Vec::new(), p, st_prefer_sha: rng.bool(), probed: Vec::new(), requests_seen: 0, cred })
    }

    fn delay(&self, rng: &mut Rng, rto: u64) -> u64 {
        if self.p.fast_responses {
            match rng.below(12) {
                // response times in exact simple ratios to the RTO in force / the configured RTO /
                // the granularity: the values at which an estimator's state coincides with its
                // initial or previous state (e.g. R = RTO/3 leaves the RTO unchanged after the
                // first sample)
                10 | 11 => {
                    let base = *rng.pick(&[rto, rto, self.sim.cfg.rto_ns, self.sim.cfg.granularity_ns]);
                    let (num, den) = *rng.pick(&[(1u64, 3u64), (1, 3), (1, 2), (1, 4), (1, 8), (2, 3), (1, 1), (1, 6)]);
                    (base / den).saturating_mul(num).max(1)
                }
                0 => 1_000 + rng.below(1_000_000),
                1..=6 => 1_000_000 + rng.below(rto.max(2_000_000) / 2),
                7 => rto.saturating_sub(1 + rng.below(1000)),
                8 => rto.saturating_add(rng.below(rto.max(1))),
                _ => 1 + rng.below(rto.max(1).saturating_mul(3)),
            }
        } else {
            match rng.below(10) {
                // exactly at (or 1 ns around) a retransmission slot / the default deadline: the
                // response and the timer expiry fall on the same instant
                8 => {
                    let k = 1 + rng.below(5) as u32;
                    let slot = rto.saturating_mul((1u64 << k) - 1);
                    match rng.below(4) {
                        0 => slot.saturating_sub(1).max(1),
                        1 => slot.saturating_add(1),
                        _ => slot.max(1),
                    }
                }
                9 => {
                    let (num, den) = *rng.pick(&[(1u64, 3u64), (1, 2), (1, 4), (2, 3), (1, 1)]);
                    (rto / den).saturating_mul(num).max(1)
                }
                0 => 1 + rng.below(1_000),
                1 | 2 => 1_000 + rng.below(rto.max(2)),
                3 => rto.saturating_add(rng.below(rto.max(1).saturating_mul(4))),
                4 => rng.below(rto.max(1).saturating_mul(40)),
                _ => 1_000_000 + rng.below(rto.max(2_000_000)),
            }
        }
    }

    /// decide what the server does with a freshly sent request
    fn plan_for(&mut self, ctx: &mut Ctx, rng: &mut Rng, id: Id, method: u16, bytes: &[u8]) {
        self.resp.observe_request(bytes);
        self.requests_seen += 1;
        if let Some(a) = self.cred.agreed {
            self.st_prefer_sha = a;
        }
        let rto = self.sim.index.get(&id).map(|i| self.sim.txs[*i].rto).unwrap_or(500_000_000);
        let now = self.sim.now;
        if rng.below(1000) < self.p.silence_pm as u64 {
            ctx.count("plan.silence");
            return;
        }
        let faulty = rng.below(1000) < self.p.fault_pm as u64;
        let mech = self.sim.cfg.mech.clone();
        let mut plans: Vec<Plan> = Vec::new();
        if faulty && self.sim.cfg.fingerprint && mech != Mech::None && rng.chance(1, 3) {
            plans.push(Plan::FpFault(*rng.pick(&[Fp::Absent, Fp::Bad, Fp::NotLast, Fp::NotLastWholeLen, Fp::DoubleFirstGood, Fp::DoubleFirstWholeLen])));
        }
        match mech {
            Mech::None => {
                if faulty && self.sim.cfg.fingerprint {
                    plans.push(Plan::FpFault(*rng.pick(&[Fp::Absent, Fp::Bad, Fp::NotLast, Fp::NotLastWholeLen, Fp::DoubleFirstGood, Fp::DoubleFirstWholeLen])));
                    if rng.bool() {
                        plans.push(Plan::Good { error: None });
                    }
                } else {
                    plans.push(Plan::Good { error: if rng.chance(1, 4) { Some(*rng.pick(&[400u16, 420, 500, 300])) } else { None } });
                }
            }
            Mech::ShortTerm(_) => {
                if faulty {
                    let n = 1 + rng.below(2);
                    for _ in 0..n {
                        plans.push(Plan::BadAuth(rng.pick(&[Integ::None, Integ::MiBad, Integ::ShaBad, Integ::MiWrongKey, Integ::ShaWrongKey, Integ::Both, Integ::Mi, Integ::Sha]).clone()));
                    }
                    if rng.bool() {
                        plans.push(Plan::Good { error: None });
                    }
                } else {
                    plans.push(Plan::Good { error: if rng.chance(1, 4) { Some(400) } else { None } });
                }
            }
            Mech::LongTerm => {
                if self.resp.lt.is_none() || rng.chance(1, 6) {
                    plans.push(Plan::Challenge401 { algs: rng.below(8) as u8, anonymity: rng.chance(1, 4), cookie: rng.bool(), new_realm: rng.chance(1, 4) });
                } else if faulty {
                    plans.push(Plan::BadAuth(rng.pick(&[Integ::None, Integ::MiBad, Integ::ShaBad, Integ::MiWrongKey, Integ::ShaWrongKey, Integ::Both, Integ::Mi, Integ::Sha]).clone()));
                    if rng.bool() {
                        plans.push(Plan::Good { error: None });
                    }
                } else if rng.chance(1, 6) {
                    plans.push(Plan::Stale438);
                } else {
                    plans.push(Plan::Good { error: if rng.chance(1, 4) { Some(*rng.pick(&[400u16, 420, 500])) } else { None } });
                }
            }
        }
        let mut at = now;
        for pl in plans {
            at += self.delay(rng, rto);
            ctx.count(&format!("plan.{}", plan_name(&pl)));
            let mut pkt = Packet { at, bytes: vec![], label: plan_name(&pl).to_string(), lt_on_retry: None, nonce_on_retry: None };
            match pl {
                Plan::Good { error } => {
                    pkt.bytes = self.resp.good(&id, method, error, self.st_prefer_sha);
                }
                Plan::BadAuth(integ) => {
                    let err = if rng.chance(1, 4) { Some(400) } else { None };
                    pkt.bytes = self.resp.bad_auth(&id, method, integ, err);
                }
                Plan::Challenge401 { algs, anonymity, cookie, new_realm } => {
                    let variant = if rng.chance(1, 5) { 1 + rng.below(6) as u8 } else { 0 };
                    let (b, st) = self.resp.challenge_variant(rng, &id, method, algs, anonymity, cookie, new_realm, variant);
                    pkt.bytes = b;
                    pkt.lt_on_retry = Some(st);
                    if variant != 0 {
                        pkt.label = format!("challenge-401-variant{}", variant);
                    }
                }
                Plan::Stale438 if rng.chance(1, 4) => match self.resp.stale_bad_integrity(&id, method) {
                    Some(b) => {
                        pkt.bytes = b;
                        pkt.label = "stale-438-bad-integrity".into();
                    }
                    None => continue,
                },
                Plan::Stale438 if rng.chance(1, 5) => match self.resp.stale_no_nonce(&id, method) {
                    Some(b) => {
                        pkt.bytes = b;
                        pkt.label = "stale-438-authentic-without-nonce".into();
                    }
                    None => continue,
                },
                Plan::Stale438 => match self.resp.stale(&id, method, rng.bool()) {
                    Some((b, nonce)) => {
                        pkt.bytes = b;
                        pkt.nonce_on_retry = Some(nonce);
                    }
                    None => continue,
                },
                Plan::FpFault(fp) => {
                    let (mut integ, key) = self.resp.good_auth(self.st_prefer_sha);
                    // sometimes the message is wrong twice: bad FINGERPRINT and failing
                    // integrity (the fingerprint stage must still be the one that refuses it)
                    if integ != Integ::None && rng.chance(1, 3) {
                        integ = rng.pick(&[Integ::MiBad, Integ::ShaBad, Integ::MiWrongKey, Integ::None]).clone();
                    }
                    pkt.bytes = crate::server::craft(&crate::server::Reply { class: 2, method, txid: id, error_code: None, extra: vec![], integ, key, fp });
                }
                Plan::Silence => continue,
            }
            // duplication: immediately and/or long after
            if rng.chance(1, 6) {
                let mut d = pkt.clone();
                d.at += rng.below(1000);
                d.label = format!("dup-{}", d.label);
                self.net.push(d);
            }
            if rng.chance(1, 8) {
                let mut d = pkt.clone();
                d.at = d.at.saturating_add(rto.max(1).saturating_mul(50)).saturating_add(rng.below(1_000_000_000));
                d.label = format!("late-dup-{}", d.label);
                self.net.push(d);
            }
            self.net.push(pkt);
        }
    }

    fn handle_events(&mut self, ctx: &mut Ctx, rng: &mut Rng, evs: &[Ev], pkt: Option<&Packet>) {
        for e in evs {
            match e {
                Ev::Retry { .. } => {
                    if let Some(p) = pkt {
                        if let Some(st) = &p.lt_on_retry {
                            self.resp.lt = Some(st.clone());
                        }
                        if let (Some(n), Some(lt)) = (&p.nonce_on_retry, self.resp.lt.as_mut()) {
                            lt.nonce = n.clone();
                        }
                    }
                }
                Ev::Received { class, .. } if *class >= 2 => {
                    // first authenticated short-term response fixes the algorithm
                }
                _ => {}
            }
        }
        // post-mortem probes: a valid response for every transaction that has just finished
        let finished: Vec<(Id, u16)> = self
            .sim
            .txs
            .iter()
            .filter(|t| matches!(t.state, TxState::Final(_)) && !self.probed.contains(&t.id))
            .map(|t| (t.id, t.method))
            .collect();
        for (id, method) in finished {
            self.probed.push(id);
            for k in 0..2u64 {
                let bytes = self.resp.good(&id, method, if k == 1 && rng.bool() { Some(400) } else { None }, self.st_prefer_sha);
                let at = self.sim.now.saturating_add(1 + rng.below(2_000_000_000) + k * rng.below(60_000_000_000));
                self.net.push(Packet { at, bytes, label: "post-mortem-valid-response".into(), lt_on_retry: None, nonce_on_retry: None });
                ctx.count("probe.post-mortem-scheduled");
            }
        }
    }

    pub fn do_send(&mut self, ctx: &mut Ctx, rng: &mut Rng) {
        let method = *rng.pick(&[1u16, 1, 3, 4, 8, 9, 0x7F]);
        let (attrs, list, desc) = app_attrs(rng, if self.p.rich_app { 8 } else { 3 }, self.p.rich_app);
        let buf = if rng.chance(1, 25) { rng.below(30) as usize } else { 4096 };
        let r = self.sim.send_request(ctx, method, attrs, &desc, buf);
        if let OpResult::Sent(id) = r {
            let bytes = self.sim.txs[self.sim.index[&id]].first_bytes.clone();
            self.cred.on_output(ctx, &self.sim, &id, &bytes, method, false, Some(&list), Some(APP_KEY.as_bytes()));
            self.plan_for(ctx, rng, id, method, &bytes);
        }
        self.handle_events(ctx, rng, &[], None);
    }

    /// One scripted request/response exchange (used to reach a given credential state in a
    /// known number of operations). kind: 0 = 401 challenge, 1 = acceptable response, 2 = 438.
    /// Returns the events of the delivery.
    pub fn scripted_exchange(&mut self, ctx: &mut Ctx, rng: &mut Rng, kind: u8, algs: u8, anonymity: bool) -> Vec<Ev> {
        let method = 1u16;
        let (attrs, list, desc) = app_attrs(rng, 2, self.p.rich_app);
        let r = self.sim.send_request(ctx, method, attrs, &desc, 4096);
        let OpResult::Sent(id) = r else { return vec![] };
        let bytes = self.sim.txs[self.sim.index[&id]].first_bytes.clone();
        self.cred.on_output(ctx, &self.sim, &id, &bytes, method, false, Some(&list), Some(APP_KEY.as_bytes()));
        self.resp.observe_request(&bytes);
        self.requests_seen += 1;
        let mut pkt = Packet { at: self.sim.now, bytes: vec![], label: String::new(), lt_on_retry: None, nonce_on_retry: None };
        match kind {
            0 => {
                let cookie = rng.bool();
                let (b, st) = self.resp.challenge(rng, &id, method, algs, anonymity, cookie, false);
                pkt.bytes = b;
                pkt.lt_on_retry = Some(st);
                pkt.label = "scripted-401".into();
            }
            2 => match { let wi = rng.bool(); self.resp.stale(&id, method, wi) } {
                Some((b, nonce)) => {
                    pkt.bytes = b;
                    pkt.nonce_on_retry = Some(nonce);
                    pkt.label = "scripted-438".into();
                }
                None => return vec![],
            },
            _ => {
                pkt.bytes = self.resp.good(&id, method, None, self.st_prefer_sha);
                pkt.label = "scripted-good".into();
            }
        }
        self.sim.now += 1_000 + rng.below(5_000_000);
        let (_, evs) = self.recv(ctx, &pkt.label.clone(), &pkt.bytes.clone(), Some(&pkt));
        self.handle_events(ctx, rng, &evs, Some(&pkt));
        evs
    }

    /// on_buffer_recv through the simulation + credential monitors
    pub fn recv(&mut self, ctx: &mut Ctx, label: &str, bytes: &[u8], pkt: Option<&Packet>) -> (OpResult, Vec<Ev>) {
        let mut id = [0u8; 12];
        if bytes.len() >= 20 {
            id.copy_from_slice(&bytes[8..20]);
        }
        let before_awaiting = self.sim.index.get(&id).map(|i| self.sim.txs[*i].state == TxState::Awaiting).unwrap_or(false);
        let (res, evs) = self.sim.recv(ctx, label, bytes);
        if !self.sim.dead {
            self.cred.on_delivery(
                ctx,
                &self.sim,
                bytes,
                &res,
                &evs,
                before_awaiting,
                pkt.and_then(|p| p.lt_on_retry.as_ref()),
                pkt.and_then(|p| p.nonce_on_retry.as_deref()),
            );
        }
        (res, evs)
    }

    pub fn timeout(&mut self, ctx: &mut Ctx, why: &str) -> Vec<Ev> {
        let evs = self.sim.timeout(ctx, why);
        if !self.sim.dead {
            self.cred.on_timeout_events(ctx, &self.sim, &evs);
        }
        evs
    }

    pub fn do_indication(&mut self, ctx: &mut Ctx, rng: &mut Rng) {
        let (attrs, list, _) = app_attrs(rng, if self.p.rich_app { 6 } else { 2 }, self.p.rich_app);
        let method = *rng.pick(&[1u16, 6, 7]);
        let (res, evs) = self.sim.send_indication(ctx, method, attrs, if rng.chance(1, 20) { 8 } else { 4096 });
        match (&res, &self.sim.cfg.mech) {
            (OpResult::Sent(id), m) => {
                if *m == Mech::LongTerm && self.cred.monitors & crate::cred::M_C08 != 0 {
                    ctx.violation("c08:indication-sent-with-long-term-credentials", "send_indication succeeded although the long-term mechanism cannot protect indications".into(), self.sim.witness());
                }
                if let Some(Ev::Output { bytes, .. }) = evs.first() {
                    let b = bytes.clone();
                    self.cred.on_output(ctx, &self.sim, id, &b, method, true, Some(&list), Some(APP_KEY.as_bytes()));
                }
            }
            (OpResult::SendErr(_), Mech::LongTerm) => ctx.count("c08.indication-refused"),
            _ => {}
        }
    }

    pub fn do_deliver(&mut self, ctx: &mut Ctx, rng: &mut Rng) {
        if self.net.is_empty() {
            return;
        }
        // earliest first, with some reordering
        self.net.sort_by_key(|p| p.at);
        let k = if rng.chance(1, 5) { rng.usize_below(self.net.len().min(3)) } else { 0 };
        let pkt = self.net.remove(k);
        if rng.chance(1, 12) {
            ctx.count("net.dropped");
            return;
        }
        if pkt.at > self.sim.now {
            self.sim.now = pkt.at.min(TIME_CAP + 1);
        }
        let (_, evs) = self.recv(ctx, &pkt.label.clone(), &pkt.bytes.clone(), Some(&pkt));
        ctx.count(&format!("deliver.{}", pkt.label.trim_start_matches("dup-").trim_start_matches("late-dup-")));
        self.handle_events(ctx, rng, &evs, Some(&pkt));
    }

    pub fn do_fire(&mut self, ctx: &mut Ctx, rng: &mut Rng, force_exact: bool) {
        let Some((_, at)) = self.sim.armed else { return };
        let late = if !force_exact && rng.below(1000) < self.p.late_pm as u64 {
            let max_deadline = self.sim.txs.iter().filter(|t| t.state == TxState::Awaiting).map(|t| t.deadline).max().unwrap_or(at);
            match rng.below(7) {
                0 => 1,
                1 => 1_000_000,
                2 => rng.below(50_000_000),
                3 => rng.below(2_000_000_000),
                4 => rng.below(20_000_000_000),
                5 => max_deadline.saturating_sub(at).saturating_add(rng.below(1_000_000_000)),
                _ => rng.below(1_000_000),
            }
        } else {
            0
        };
        if late > 0 {
            ctx.count("timer.late");
        } else {
            ctx.count("timer.exact");
        }
        let t = at.max(self.sim.now).saturating_add(late);
        self.sim.now = t.min(TIME_CAP + 1).max(self.sim.now);
        let evs = self.timeout(ctx, if late > 0 { "late" } else { "on-time" });
        self.handle_events(ctx, rng, &evs, None);
    }

    pub fn do_early(&mut self, ctx: &mut Ctx, rng: &mut Rng) {
        if let Some((_, at)) = self.sim.armed {
            if at > self.sim.now + 1 {
                self.sim.now += rng.below(at - self.sim.now - 1);
                ctx.count("timer.early");
                let evs = self.timeout(ctx, "early");
                self.handle_events(ctx, rng, &evs, None);
                return;
            }
        }
        // no timer armed: a spurious call must be harmless too
        ctx.count("timer.spurious");
        let evs = self.timeout(ctx, "spurious");
        self.handle_events(ctx, rng, &evs, None);
    }

    pub fn do_idle(&mut self, _ctx: &mut Ctx, rng: &mut Rng) {
        let dt = if self.p.long_idle {
            match rng.below(8) {
                0 => 599_990_000_000 + rng.below(20_000_000),
                1 => 600_000_000_000 - rng.below(3),
                2 => 600_000_000_000 + rng.below(3),
                3 => 601_000_000_000 + rng.below(99_000_000_000),
                4 => rng.below(500_000_000_000),
                _ => rng.below(5_000_000_000),
            }
        } else {
            rng.below(3_000_000_000)
        };
        self.sim.now = self.sim.now.saturating_add(dt).min(TIME_CAP + 1);
    }

    /// hostile / irrelevant buffers
    pub fn do_probe(&mut self, ctx: &mut Ctx, rng: &mut Rng) {
        let aw = self.sim.awaiting();
        let kind = rng.below(9);
        let (label, bytes): (&str, Vec<u8>) = match kind {
            0 => {
                // valid-looking response for an id never used
                let mut id = [0u8; 12];
                rng.fill(&mut id);
                ("unknown-id-response", self.resp.good(&id, 1, None, self.st_prefer_sha))
            }
            1 => {
                // request-class message (for an outstanding id when possible)
                let id = aw.first().map(|i| self.sim.txs[*i].id).unwrap_or([3u8; 12]);
                let b = self.resp.good(&id, 1, None, self.st_prefer_sha);
                ("request-class", mutate::readdress_and_resign(&b, &id, None, self.sim.cfg.fingerprint, Some(0)))
            }
            2 => ("garbage", mutate::random_message(rng)),
            3 => {
                // received indication, valid for the mechanism
                let (integ, _) = self.resp.good_auth(self.st_prefer_sha);
                ("indication-valid", self.resp.indication(rng, integ, self.resp.fp()))
            }
            4 => {
                let integ = rng_integ(rng);
                ("indication-bad-auth", self.resp.indication(rng, integ, self.resp.fp()))
            }
            5 => {
                // response for a finished transaction
                match self.sim.txs.iter().find(|t| matches!(t.state, TxState::Final(_))) {
                    Some(t) => ("finished-id-response", self.resp.good(&t.id.clone(), t.method, None, self.st_prefer_sha)),
                    None => ("garbage", mutate::random_message(rng)),
                }
            }
            6 => {
                // fingerprint fault on an outstanding id
                match aw.first() {
                    Some(i) => {
                        let t = &self.sim.txs[*i];
                        let (mut integ, key) = self.resp.good_auth(self.st_prefer_sha);
                        if integ != Integ::None && rng.chance(1, 3) {
                            integ = rng.pick(&[Integ::MiBad, Integ::ShaBad, Integ::MiWrongKey, Integ::None]).clone();
                        }
                        let fp = if self.sim.cfg.fingerprint { *rng.pick(&[Fp::Absent, Fp::Bad, Fp::NotLastWholeLen, Fp::DoubleFirstWholeLen]) } else { Fp::Bad };
                        (
                            "fingerprint-fault",
                            crate::server::craft(&crate::server::Reply { class: 2, method: t.method, txid: t.id, error_code: None, extra: vec![], integ, key, fp }),
                        )
                    }
                    None => ("garbage", mutate::random_message(rng)),
                }
            }
            7 => {
                // mutated copy of a valid response for an outstanding id
                match aw.first() {
                    Some(i) => {
                        let t = &self.sim.txs[*i];
                        let b = self.resp.good(&t.id.clone(), t.method, None, self.st_prefer_sha);
                        let (m, _) = mutate::mutate(rng, &b, &[]);
                        ("mutated-response", m)
                    }
                    None => ("garbage", mutate::random_message(rng)),
                }
            }
            _ => {
                // indication carrying the id of an outstanding request
                match aw.first() {
                    Some(i) => {
                        let t = &self.sim.txs[*i];
                        let b = self.resp.good(&t.id.clone(), t.method, None, self.st_prefer_sha);
                        let key = match self.sim.cfg.mech {
                            Mech::None => None,
                            _ => Some(self.resp.good_auth(self.st_prefer_sha).1),
                        };
                        ("indication-with-outstanding-id", mutate::readdress_and_resign(&b, &t.id.clone(), key.as_deref(), self.sim.cfg.fingerprint, Some(1)))
                    }
                    None => ("garbage", mutate::random_message(rng)),
                }
            }
        };
        ctx.count(&format!("probe.{}", label));
        let (_, evs) = self.recv(ctx, label, &bytes, None);
        self.handle_events(ctx, rng, &evs, None);
    }

    pub fn step(&mut self, ctx: &mut Ctx, rng: &mut Rng) {
        let can_send = self.p.hammer_limit || self.sim.awaiting_count() < self.p.max_concurrent;
        let w = [
            if can_send { self.p.w_send } else { 0 },
            self.p.w_indication,
            if self.net.is_empty() { 0 } else { self.p.w_deliver },
            if self.sim.armed.is_some() { self.p.w_fire } else { 0 },
            self.p.w_early,
            self.p.w_idle,
            self.p.w_probe,
        ];
        match rng.weighted(&w) {
            0 => self.do_send(ctx, rng),
            1 => self.do_indication(ctx, rng),
            2 => self.do_deliver(ctx, rng),
            3 => self.do_fire(ctx, rng, false),
            4 => self.do_early(ctx, rng),
            5 => self.do_idle(ctx, rng),
            _ => self.do_probe(ctx, rng),
        }
        ctx.state(self.sim.abstract_state());
        let g = self.sim.ngram();
        if !ctx.states.contains(&g) {
            ctx.count("distinct-op-3grams.sum-over-shards");
        }
        ctx.state(g);
    }

    /// no new requests; deliver what is in flight, then follow the timer until nothing is armed
    pub fn drain(&mut self, ctx: &mut Ctx, rng: &mut Rng) {
        let mut guard = 0;
        while !self.net.is_empty() && guard < 200 && !self.sim.dead && self.sim.now < TIME_CAP {
            guard += 1;
            if self.sim.armed.is_some() && rng.chance(1, 3) {
                self.do_fire(ctx, rng, false);
            } else {
                self.do_deliver(ctx, rng);
            }
        }
        let mut fires = 0;
        let bound = 64 + 16 * self.sim.txs.len();
        while self.sim.armed.is_some() && fires < bound && !self.sim.dead && self.sim.now < TIME_CAP {
            fires += 1;
            self.do_fire(ctx, rng, false);
            // post-mortem probes scheduled meanwhile
            while !self.net.is_empty() && rng.chance(2, 3) {
                self.do_deliver(ctx, rng);
            }
        }
        while !self.net.is_empty() && !self.sim.dead && self.sim.now < TIME_CAP {
            self.do_deliver(ctx, rng);
        }
        if self.sim.dead {
            return;
        }
        if self.sim.now >= TIME_CAP {
            ctx.count("histories-cut-at-time-cap");
            return;
        }
        // C11 bounded liveness: with a contract-following controller, at quiescence every
        // request has a final outcome
        if self.sim.armed.is_none() {
            ctx.count("c11.quiescence-points");
            let pending: Vec<String> = self.sim.txs.iter().filter(|t| t.state == TxState::Awaiting).map(|t| crate::sim::short_id(&t.id)).collect();
            if !pending.is_empty() && self.sim.on(crate::sim::M_C11) {
                ctx.violation(
                    "c11:quiescent-with-pending-requests",
                    format!("no timer is armed and nothing is in flight, but {} request(s) never reached a final outcome: {:?}", pending.len(), pending),
                    self.sim.witness(),
                );
            }
        } else if self.sim.on(crate::sim::M_C11) {
            ctx.violation(
                "c11:timer-chain-does-not-terminate",
                format!("after {} timer calls a timer is still armed", fires),
                self.sim.witness(),
            );
        }
        // far-future timer call: nothing may happen any more
        self.sim.now += 3_600_000_000_000;
        let evs = self.timeout(ctx, "far-future");
        if !evs.is_empty() && self.sim.on(crate::sim::M_C05) && self.sim.awaiting_count() == 0 {
            ctx.violation(
                "c05:events-after-everything-finished",
                format!("a timer call an hour after the last outcome produced {:?}", evs.iter().map(|e| e.brief()).collect::<Vec<_>>()),
                self.sim.witness(),
            );
        }
    }
}

fn rng_integ(rng: &mut Rng) -> Integ {
    rng.pick(&[Integ::None, Integ::MiBad, Integ::ShaBad, Integ::MiWrongKey, Integ::Both]).clone()
}

fn plan_name(p: &Plan) -> &'static str {
    match p {
        Plan::Good { error: None } => "good-success",
        Plan::Good { .. } => "good-error",
        Plan::BadAuth(_) => "bad-auth",
        Plan::Challenge401 { .. } => "challenge-401",
        Plan::Stale438 => "stale-438",
        Plan::FpFault(_) => "fingerprint-fault",
        Plan::Silence => "silence",
    }
}

/// One complete history: walk, drain, post-mortem.  Returns the number of steps.
pub fn run_history(ctx: &mut Ctx, rng: &mut Rng, cfg: SimCfg, p: &Profile) -> Option<Sim> {
    let mut w = match Walk::new(cfg, p, rng) {
        Ok(w) => w,
        Err(_) => {
            ctx.count("client-build-rejected");
            return None;
        }
    };
    let n = rng.range(p.steps.0, p.steps.1);
    for _ in 0..n {
        if w.sim.dead || w.sim.now > TIME_CAP {
            break;
        }
        w.step(ctx, rng);
    }
    if w.sim.now > TIME_CAP {
        // learned RTOs and late timer calls feed each other; beyond ~3 virtual years the
        // history is cut (not a verdict)
        ctx.count("histories-cut-at-time-cap");
        return Some(w.sim);
    }
    w.drain(ctx, rng);
    ctx.count_n("steps", w.sim.nsteps as u64);
    Some(w.sim)
}

#[allow(dead_code)]
fn _unused(_: LAttr, _: wire::RawMsg) {}
