//! Per-shard run context: deterministic case iteration, counters, distinct-case hashes,
//! samples, violations with signatures, progress file for crash attribution, panic capture.

use crate::json::J;
use crate::rng::{fnv64, Rng};
use std::cell::RefCell;
use std::collections::{BTreeMap, HashSet};
use std::io::{Seek, SeekFrom, Write};
use std::panic::{catch_unwind, AssertUnwindSafe};

#[derive(Clone, Copy, Debug, PartialEq, Eq)]
pub enum Tier {
    Quick,
    Thorough,
}

#[derive(Clone, Debug)]
pub struct Violation {
    pub signature: String,
    pub detail: String,
    pub stream: String,
    pub case: u64,
    pub witness: J,
}

pub struct Ctx {
    pub prop: String,
    pub tier: Tier,
    pub seed: u64,
    pub shard: u64,
    pub nshards: u64,
    /// replay filter: only this (stream, case)
    pub only: Option<(String, u64)>,
    pub verbose: bool,
    pub profile: String,
    /// scale factor for case counts (thorough sanitizer passes use < 1)
    pub scale: f64,
    pub evaluations: u64,
    pub counters: BTreeMap<String, u64>,
    pub distinct: HashSet<u64>,
    pub states: HashSet<u64>,
    pub samples: Vec<J>,
    pub violations: Vec<Violation>,
    pub violation_counts: BTreeMap<String, u64>,
    pub notes: Vec<String>,
    pub exhaustive: BTreeMap<String, bool>,
    progress: Option<std::fs::File>,
    pub track_every_case: bool,
    cur_stream: String,
    cur_case: u64,
}

pub const MAX_DISTINCT: usize = 1 << 21;
pub const MAX_SAMPLES: usize = 6;

impl Ctx {
    pub fn new(prop: &str, tier: Tier, seed: u64, shard: u64, nshards: u64) -> Self {
        Ctx {
            prop: prop.to_string(),
            tier,
            seed,
            shard,
            nshards,
            only: None,
            verbose: false,
            profile: String::from(if cfg!(debug_assertions) { "dev" } else { "release" }),
            scale: 1.0,
            evaluations: 0,
            counters: BTreeMap::new(),
            distinct: HashSet::new(),
            states: HashSet::new(),
            samples: Vec::new(),
            violations: Vec::new(),
            violation_counts: BTreeMap::new(),
            notes: Vec::new(),
            exhaustive: BTreeMap::new(),
            progress: None,
            track_every_case: false,
            cur_stream: String::new(),
            cur_case: 0,
        }
    }

    pub fn set_progress_file(&mut self, path: &std::path::Path) {
        self.progress = std::fs::File::create(path).ok();
    }

    pub fn quick(&self) -> bool {
        self.tier == Tier::Quick
    }

    /// pick a case count by tier, scaled
    pub fn n(&self, quick: u64, thorough: u64) -> u64 {
        let base = if self.quick() { quick } else { thorough };
        ((base as f64) * self.scale).ceil().max(1.0) as u64
    }

    pub fn count(&mut self, key: &str) {
        *self.counters.entry(key.to_string()).or_insert(0) += 1;
    }

    pub fn count_n(&mut self, key: &str, n: u64) {
        *self.counters.entry(key.to_string()).or_insert(0) += n;
    }

    pub fn counter(&self, key: &str) -> u64 {
        self.counters.get(key).copied().unwrap_or(0)
    }

    /// Record one evaluated case; `nontrivial_hash` = Some(hash of the case content) when
    /// the case is non-trivial by the property's rule.
    pub fn eval(&mut self, nontrivial_hash: Option<u64>) {
        self.evaluations += 1;
        if let Some(h) = nontrivial_hash {
            if self.distinct.len() < MAX_DISTINCT {
                self.distinct.insert(h);
            }
        }
    }

    pub fn state(&mut self, h: u64) {
        if self.states.len() < MAX_DISTINCT {
            self.states.insert(h);
        }
    }

    pub fn sample(&mut self, j: J) {
        if self.samples.len() < MAX_SAMPLES {
            self.samples.push(j);
        }
    }

    pub fn want_sample(&self) -> bool {
        self.samples.len() < MAX_SAMPLES
    }

    pub fn note(&mut self, s: &str) {
        if !self.notes.iter().any(|n| n == s) {
            self.notes.push(s.to_string());
        }
    }

    pub fn violation(&mut self, signature: &str, detail: String, witness: J) {
        // signatures are single tokens (no blanks) so that KNOWN_FINDINGS.txt can key on them
        let signature: String = signature
            .chars()
            .map(|c| if c.is_whitespace() { '_' } else { c })
            .take(160)
            .collect();
        let signature = signature.as_str();
        let c = self.violation_counts.entry(signature.to_string()).or_insert(0);
        *c += 1;
        if *c == 1 && self.violations.len() < 40 {
            self.violations.push(Violation {
                signature: signature.to_string(),
                detail,
                stream: self.cur_stream.clone(),
                case: self.cur_case,
                witness,
            });
        }
        if self.verbose {
            eprintln!("VIOLATION-DETAIL sig={} stream={} case={}", signature, self.cur_stream, self.cur_case);
        }
    }

    fn write_progress(&mut self, stream: &str, case: u64) {
        if let Some(f) = self.progress.as_mut() {
            let _ = f.seek(SeekFrom::Start(0));
            let line = format!("{} {}                    \n", stream, case);
            let _ = f.write_all(line.as_bytes());
        }
    }

    /// Iterate the cases of a named stream that belong to this shard.  Generation is a
    /// pure function of (seed, property, stream, case), so `--only stream:case` replays it.
    pub fn cases<F>(&mut self, stream: &str, total: u64, mut f: F)
    where
        F: FnMut(&mut Ctx, u64, &mut Rng),
    {
        let sh = fnv64(stream.as_bytes());
        if let Some((s, c)) = self.only.clone() {
            if s != stream {
                return;
            }
            if c < total {
                self.cur_stream = stream.to_string();
                self.cur_case = c;
                let mut rng = Rng::for_case(self.seed, &self.prop, sh, c);
                f(self, c, &mut rng);
            }
            return;
        }
        self.cur_stream = stream.to_string();
        let mut case = self.shard;
        while case < total {
            self.cur_case = case;
            if self.track_every_case || (case / self.nshards) % 64 == 0 {
                self.write_progress(stream, case);
            }
            let mut rng = Rng::for_case(self.seed, &self.prop, sh, case);
            f(self, case, &mut rng);
            case += self.nshards;
        }
    }

    pub fn cur(&self) -> (String, u64) {
        (self.cur_stream.clone(), self.cur_case)
    }

    pub fn to_json(&self) -> J {
        let mut o = J::obj();
        o.put("property", J::s(&self.prop));
        o.put("tier", J::s(if self.quick() { "quick" } else { "thorough" }));
        o.put("seed", J::i(self.seed as i64));
        o.put("shard", J::i(self.shard as i64));
        o.put("nshards", J::i(self.nshards as i64));
        o.put("profile", J::s(&self.profile));
        o.put("evaluations", J::i(self.evaluations as i64));
        o.put("distinct_local", J::u(self.distinct.len()));
        o.put("states_local", J::u(self.states.len()));
        let mut c = J::obj();
        for (k, v) in &self.counters {
            c.put(k.clone(), J::i(*v as i64));
        }
        o.put("counters", c);
        o.put("samples", J::Arr(self.samples.clone()));
        o.put("notes", J::arr(self.notes.iter().map(J::s)));
        let mut ex = J::obj();
        for (k, v) in &self.exhaustive {
            ex.put(k.clone(), J::Bool(*v));
        }
        o.put("exhaustive", ex);
        let mut vc = J::obj();
        for (k, v) in &self.violation_counts {
            vc.put(k.clone(), J::i(*v as i64));
        }
        o.put("violation_counts", vc);
        o.put(
            "violations",
            J::arr(self.violations.iter().map(|v| {
                J::obj()
                    .set("signature", J::s(&v.signature))
                    .set("detail", J::s(&v.detail))
                    .set("stream", J::s(&v.stream))
                    .set("case", J::i(v.case as i64))
                    .set("witness", v.witness.clone())
            })),
        );
        o
    }
}

// ---------------------------------------------------------------------------------------
// panic capture

#[derive(Clone, Debug)]
pub struct PanicInfo {
    pub message: String,
    pub location: String,
}

thread_local! {
    static LAST_PANIC: RefCell<Option<PanicInfo>> = const { RefCell::new(None) };
}

pub fn install_panic_hook() {
    std::panic::set_hook(Box::new(|info| {
        let message = if let Some(s) = info.payload().downcast_ref::<&str>() {
            s.to_string()
        } else if let Some(s) = info.payload().downcast_ref::<String>() {
            s.clone()
        } else {
            String::from("<non-string panic payload>")
        };
        let location = info
            .location()
            .map(|l| format!("{}:{}", l.file(), l.line()))
            .unwrap_or_else(|| String::from("<unknown>"));
        LAST_PANIC.with(|p| *p.borrow_mut() = Some(PanicInfo { message, location }));
    }));
}

/// Run `f`; a panic is turned into `Err(PanicInfo)`.
pub fn guarded<T, F: FnOnce() -> T>(f: F) -> Result<T, PanicInfo> {
    LAST_PANIC.with(|p| *p.borrow_mut() = None);
    match catch_unwind(AssertUnwindSafe(f)) {
        Ok(v) => Ok(v),
        Err(_) => Err(LAST_PANIC
            .with(|p| p.borrow_mut().take())
            .unwrap_or(PanicInfo { message: "<panic>".into(), location: "<unknown>".into() })),
    }
}

/// Short, stable signature component for a panic: file name + line, with the path made
/// relative to the repository so that it does not depend on where the tree lives.
pub fn panic_sig(p: &PanicInfo) -> String {
    let loc = &p.location;
    let rel = match loc.find("/stun-") {
        Some(i) => &loc[i + 1..],
        None => match loc.rfind("/src/") {
            Some(i) => {
                // keep crate dir name too
                let head = &loc[..i];
                let start = head.rfind('/').map(|x| x + 1).unwrap_or(0);
                &loc[start..]
            }
            None => loc.as_str(),
        },
    };
    format!("panic@{}", rel)
}

/// True when the panic originated in the harness itself (a harness bug, reported as
/// inconclusive rather than as a violation of the property).
pub fn panic_in_harness(p: &PanicInfo) -> bool {
    p.location.contains("harness/src") || p.location.starts_with("src/")
}
