//! Minimal JSON value + writer (output only; no external crates available).

use std::collections::BTreeMap;
use std::fmt::Write;

#[derive(Clone, Debug, PartialEq)]
pub enum J {
    Null,
    Bool(bool),
    Int(i128),
    Num(f64),
    Str(String),
    Arr(Vec<J>),
    Obj(BTreeMap<String, J>),
}

impl J {
    pub fn obj() -> J {
        J::Obj(BTreeMap::new())
    }
    pub fn s<S: Into<String>>(s: S) -> J {
        J::Str(s.into())
    }
    pub fn i<T: Into<i128>>(v: T) -> J {
        J::Int(v.into())
    }
    pub fn u(v: usize) -> J {
        J::Int(v as i128)
    }
    pub fn set<S: Into<String>>(mut self, k: S, v: J) -> J {
        if let J::Obj(m) = &mut self {
            m.insert(k.into(), v);
        }
        self
    }
    pub fn put<S: Into<String>>(&mut self, k: S, v: J) {
        if let J::Obj(m) = self {
            m.insert(k.into(), v);
        }
    }
    pub fn arr<I: IntoIterator<Item = J>>(it: I) -> J {
        J::Arr(it.into_iter().collect())
    }
    pub fn hex(b: &[u8]) -> J {
        J::Str(hex(b))
    }

    pub fn write(&self, out: &mut String) {
        match self {
            J::Null => out.push_str("null"),
            J::Bool(b) => out.push_str(if *b { "true" } else { "false" }),
            J::Int(i) => {
                let _ = write!(out, "{}", i);
            }
            J::Num(f) => {
                if f.is_finite() {
                    let _ = write!(out, "{}", f);
                } else {
                    out.push_str("null");
                }
            }
            J::Str(s) => write_str(out, s),
            J::Arr(a) => {
                out.push('[');
                for (i, v) in a.iter().enumerate() {
                    if i > 0 {
                        out.push(',');
                    }
                    v.write(out);
                }
                out.push(']');
            }
            J::Obj(m) => {
                out.push('{');
                for (i, (k, v)) in m.iter().enumerate() {
                    if i > 0 {
                        out.push(',');
                    }
                    write_str(out, k);
                    out.push(':');
                    v.write(out);
                }
                out.push('}');
            }
        }
    }

    pub fn to_string(&self) -> String {
        let mut s = String::new();
        self.write(&mut s);
        s
    }
}

fn write_str(out: &mut String, s: &str) {
    out.push('"');
    for c in s.chars() {
        match c {
            '"' => out.push_str("\\\""),
            '\\' => out.push_str("\\\\"),
            '\n' => out.push_str("\\n"),
            '\r' => out.push_str("\\r"),
            '\t' => out.push_str("\\t"),
            c if (c as u32) < 0x20 => {
                let _ = write!(out, "\\u{:04x}", c as u32);
            }
            c => out.push(c),
        }
    }
    out.push('"');
}

pub fn hex(b: &[u8]) -> String {
    let mut s = String::with_capacity(b.len() * 2);
    for x in b {
        let _ = write!(s, "{:02x}", x);
    }
    s
}

pub fn unhex(s: &str) -> Option<Vec<u8>> {
    let s = s.trim();
    if s.len() % 2 != 0 {
        return None;
    }
    let mut v = Vec::with_capacity(s.len() / 2);
    let b = s.as_bytes();
    for i in (0..b.len()).step_by(2) {
        let h = (b[i] as char).to_digit(16)?;
        let l = (b[i + 1] as char).to_digit(16)?;
        v.push((h * 16 + l) as u8);
    }
    Some(v)
}

/// Truncated hex for samples (keeps evidence files readable).
pub fn hex_trunc(b: &[u8], max: usize) -> String {
    if b.len() <= max {
        hex(b)
    } else {
        format!("{}...(+{} bytes)", hex(&b[..max]), b.len() - max)
    }
}
