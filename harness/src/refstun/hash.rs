//! Independent reference implementations of SHA-1 (RFC 3174), SHA-256 (RFC 6234),
//! MD5 (RFC 1321), HMAC (RFC 2104) and CRC-32/ISO-HDLC, written from the specifications.
//! They share no code with the crates rustun uses (hmac-sha1, hmac-sha256, md5, crc) and
//! are self-tested against published vectors at every start (`self_test`).

pub fn sha1(msg: &[u8]) -> [u8; 20] {
    let mut h: [u32; 5] = [0x67452301, 0xEFCDAB89, 0x98BADCFE, 0x10325476, 0xC3D2E1F0];
    let mut data = msg.to_vec();
    let bitlen = (msg.len() as u64).wrapping_mul(8);
    data.push(0x80);
    while data.len() % 64 != 56 {
        data.push(0);
    }
    data.extend_from_slice(&bitlen.to_be_bytes());
    for chunk in data.chunks(64) {
        let mut w = [0u32; 80];
        for i in 0..16 {
            w[i] = u32::from_be_bytes([chunk[4 * i], chunk[4 * i + 1], chunk[4 * i + 2], chunk[4 * i + 3]]);
        }
        for i in 16..80 {
            w[i] = (w[i - 3] ^ w[i - 8] ^ w[i - 14] ^ w[i - 16]).rotate_left(1);
        }
        let (mut a, mut b, mut c, mut d, mut e) = (h[0], h[1], h[2], h[3], h[4]);
        for (i, wi) in w.iter().enumerate() {
            let (f, k) = match i {
                0..=19 => ((b & c) | ((!b) & d), 0x5A827999u32),
                20..=39 => (b ^ c ^ d, 0x6ED9EBA1),
                40..=59 => ((b & c) | (b & d) | (c & d), 0x8F1BBCDC),
                _ => (b ^ c ^ d, 0xCA62C1D6),
            };
            let temp = a
                .rotate_left(5)
                .wrapping_add(f)
                .wrapping_add(e)
                .wrapping_add(k)
                .wrapping_add(*wi);
            e = d;
            d = c;
            c = b.rotate_left(30);
            b = a;
            a = temp;
        }
        h[0] = h[0].wrapping_add(a);
        h[1] = h[1].wrapping_add(b);
        h[2] = h[2].wrapping_add(c);
        h[3] = h[3].wrapping_add(d);
        h[4] = h[4].wrapping_add(e);
    }
    let mut out = [0u8; 20];
    for i in 0..5 {
        out[4 * i..4 * i + 4].copy_from_slice(&h[i].to_be_bytes());
    }
    out
}

const K256: [u32; 64] = [
    0x428a2f98, 0x71374491, 0xb5c0fbcf, 0xe9b5dba5, 0x3956c25b, 0x59f111f1, 0x923f82a4, 0xab1c5ed5,
    0xd807aa98, 0x12835b01, 0x243185be, 0x550c7dc3, 0x72be5d74, 0x80deb1fe, 0x9bdc06a7, 0xc19bf174,
    0xe49b69c1, 0xefbe4786, 0x0fc19dc6, 0x240ca1cc, 0x2de92c6f, 0x4a7484aa, 0x5cb0a9dc, 0x76f988da,
    0x983e5152, 0xa831c66d, 0xb00327c8, 0xbf597fc7, 0xc6e00bf3, 0xd5a79147, 0x06ca6351, 0x14292967,
    0x27b70a85, 0x2e1b2138, 0x4d2c6dfc, 0x53380d13, 0x650a7354, 0x766a0abb, 0x81c2c92e, 0x92722c85,
    0xa2bfe8a1, 0xa81a664b, 0xc24b8b70, 0xc76c51a3, 0xd192e819, 0xd6990624, 0xf40e3585, 0x106aa070,
    0x19a4c116, 0x1e376c08, 0x2748774c, 0x34b0bcb5, 0x391c0cb3, 0x4ed8aa4a, 0x5b9cca4f, 0x682e6ff3,
    0x748f82ee, 0x78a5636f, 0x84c87814, 0x8cc70208, 0x90befffa, 0xa4506ceb, 0xbef9a3f7, 0xc67178f2,
];

pub fn sha256(msg: &[u8]) -> [u8; 32] {
    let mut h: [u32; 8] = [
        0x6a09e667, 0xbb67ae85, 0x3c6ef372, 0xa54ff53a, 0x510e527f, 0x9b05688c, 0x1f83d9ab, 0x5be0cd19,
    ];
    let mut data = msg.to_vec();
    let bitlen = (msg.len() as u64).wrapping_mul(8);
    data.push(0x80);
    while data.len() % 64 != 56 {
        data.push(0);
    }
    data.extend_from_slice(&bitlen.to_be_bytes());
    for chunk in data.chunks(64) {
        let mut w = [0u32; 64];
        for i in 0..16 {
            w[i] = u32::from_be_bytes([chunk[4 * i], chunk[4 * i + 1], chunk[4 * i + 2], chunk[4 * i + 3]]);
        }
        for i in 16..64 {
            let s0 = w[i - 15].rotate_right(7) ^ w[i - 15].rotate_right(18) ^ (w[i - 15] >> 3);
            let s1 = w[i - 2].rotate_right(17) ^ w[i - 2].rotate_right(19) ^ (w[i - 2] >> 10);
            w[i] = w[i - 16].wrapping_add(s0).wrapping_add(w[i - 7]).wrapping_add(s1);
        }
        let mut v = h;
        for i in 0..64 {
            let s1 = v[4].rotate_right(6) ^ v[4].rotate_right(11) ^ v[4].rotate_right(25);
            let ch = (v[4] & v[5]) ^ ((!v[4]) & v[6]);
            let t1 = v[7]
                .wrapping_add(s1)
                .wrapping_add(ch)
                .wrapping_add(K256[i])
                .wrapping_add(w[i]);
            let s0 = v[0].rotate_right(2) ^ v[0].rotate_right(13) ^ v[0].rotate_right(22);
            let maj = (v[0] & v[1]) ^ (v[0] & v[2]) ^ (v[1] & v[2]);
            let t2 = s0.wrapping_add(maj);
            v[7] = v[6];
            v[6] = v[5];
            v[5] = v[4];
            v[4] = v[3].wrapping_add(t1);
            v[3] = v[2];
            v[2] = v[1];
            v[1] = v[0];
            v[0] = t1.wrapping_add(t2);
        }
        for i in 0..8 {
            h[i] = h[i].wrapping_add(v[i]);
        }
    }
    let mut out = [0u8; 32];
    for i in 0..8 {
        out[4 * i..4 * i + 4].copy_from_slice(&h[i].to_be_bytes());
    }
    out
}

pub fn md5(msg: &[u8]) -> [u8; 16] {
    const S: [u32; 64] = [
        7, 12, 17, 22, 7, 12, 17, 22, 7, 12, 17, 22, 7, 12, 17, 22, 5, 9, 14, 20, 5, 9, 14, 20, 5, 9,
        14, 20, 5, 9, 14, 20, 4, 11, 16, 23, 4, 11, 16, 23, 4, 11, 16, 23, 4, 11, 16, 23, 6, 10, 15,
        21, 6, 10, 15, 21, 6, 10, 15, 21, 6, 10, 15, 21,
    ];
    // K[i] = floor(2^32 * abs(sin(i + 1)))
    let mut k = [0u32; 64];
    for (i, ki) in k.iter_mut().enumerate() {
        *ki = ((i as f64 + 1.0).sin().abs() * 4294967296.0) as u32;
    }
    let (mut a0, mut b0, mut c0, mut d0) = (0x67452301u32, 0xefcdab89u32, 0x98badcfeu32, 0x10325476u32);
    let mut data = msg.to_vec();
    let bitlen = (msg.len() as u64).wrapping_mul(8);
    data.push(0x80);
    while data.len() % 64 != 56 {
        data.push(0);
    }
    data.extend_from_slice(&bitlen.to_le_bytes());
    for chunk in data.chunks(64) {
        let mut m = [0u32; 16];
        for i in 0..16 {
            m[i] = u32::from_le_bytes([chunk[4 * i], chunk[4 * i + 1], chunk[4 * i + 2], chunk[4 * i + 3]]);
        }
        let (mut a, mut b, mut c, mut d) = (a0, b0, c0, d0);
        for i in 0..64 {
            let (mut f, g) = match i {
                0..=15 => ((b & c) | ((!b) & d), i),
                16..=31 => ((d & b) | ((!d) & c), (5 * i + 1) % 16),
                32..=47 => (b ^ c ^ d, (3 * i + 5) % 16),
                _ => (c ^ (b | (!d)), (7 * i) % 16),
            };
            f = f.wrapping_add(a).wrapping_add(k[i]).wrapping_add(m[g]);
            a = d;
            d = c;
            c = b;
            b = b.wrapping_add(f.rotate_left(S[i]));
        }
        a0 = a0.wrapping_add(a);
        b0 = b0.wrapping_add(b);
        c0 = c0.wrapping_add(c);
        d0 = d0.wrapping_add(d);
    }
    let mut out = [0u8; 16];
    out[0..4].copy_from_slice(&a0.to_le_bytes());
    out[4..8].copy_from_slice(&b0.to_le_bytes());
    out[8..12].copy_from_slice(&c0.to_le_bytes());
    out[12..16].copy_from_slice(&d0.to_le_bytes());
    out
}

fn hmac_generic(key: &[u8], msg: &[u8], h: &dyn Fn(&[u8]) -> Vec<u8>) -> Vec<u8> {
    const B: usize = 64;
    let mut k = if key.len() > B { h(key) } else { key.to_vec() };
    k.resize(B, 0);
    let mut inner: Vec<u8> = k.iter().map(|b| b ^ 0x36).collect();
    inner.extend_from_slice(msg);
    let ih = h(&inner);
    let mut outer: Vec<u8> = k.iter().map(|b| b ^ 0x5c).collect();
    outer.extend_from_slice(&ih);
    h(&outer)
}

pub fn hmac_sha1(key: &[u8], msg: &[u8]) -> [u8; 20] {
    let v = hmac_generic(key, msg, &|d| sha1(d).to_vec());
    let mut o = [0u8; 20];
    o.copy_from_slice(&v);
    o
}

pub fn hmac_sha256(key: &[u8], msg: &[u8]) -> [u8; 32] {
    let v = hmac_generic(key, msg, &|d| sha256(d).to_vec());
    let mut o = [0u8; 32];
    o.copy_from_slice(&v);
    o
}

/// CRC-32/ISO-HDLC (ITU V.42, the Ethernet/zip CRC): reflected polynomial 0xEDB88320,
/// init 0xFFFFFFFF, final XOR 0xFFFFFFFF.  Bit-at-a-time on purpose (no table to get wrong).
pub fn crc32(data: &[u8]) -> u32 {
    let mut crc: u32 = 0xFFFF_FFFF;
    for b in data {
        crc ^= *b as u32;
        for _ in 0..8 {
            if crc & 1 == 1 {
                crc = (crc >> 1) ^ 0xEDB8_8320;
            } else {
                crc >>= 1;
            }
        }
    }
    !crc
}

fn hx(s: &str) -> Vec<u8> {
    crate::json::unhex(s).expect("bad hex in self test")
}

/// Published vectors. Returns Err(description) if the reference itself is broken;
/// the harness then reports INCONCLUSIVE, never a violation.
pub fn self_test() -> Result<(), String> {
    let chk = |name: &str, got: &[u8], want: &str| -> Result<(), String> {
        if got == hx(want).as_slice() {
            Ok(())
        } else {
            Err(format!("reference self-test failed: {} got {}", name, crate::json::hex(got)))
        }
    };
    // FIPS 180 / RFC 3174
    chk("sha1(abc)", &sha1(b"abc"), "a9993e364706816aba3e25717850c26c9cd0d89d")?;
    chk("sha1('')", &sha1(b""), "da39a3ee5e6b4b0d3255bfef95601890afd80709")?;
    chk(
        "sha1(448 bits)",
        &sha1(b"abcdbcdecdefdefgefghfghighijhijkijkljklmklmnlmnomnopnopq"),
        "84983e441c3bd26ebaae4aa1f95129e5e54670f1",
    )?;
    if !cfg!(miri) {
        chk(
            "sha1(1M a)",
            &sha1(&vec![b'a'; 1_000_000]),
            "34aa973cd4c4daa4f61eeb2bdbad27316534016f",
        )?;
    }
    // RFC 6234
    chk(
        "sha256(abc)",
        &sha256(b"abc"),
        "ba7816bf8f01cfea414140de5dae2223b00361a396177a9cb410ff61f20015ad",
    )?;
    chk(
        "sha256('')",
        &sha256(b""),
        "e3b0c44298fc1c149afbf4c8996fb92427ae41e4649b934ca495991b7852b855",
    )?;
    chk(
        "sha256(448 bits)",
        &sha256(b"abcdbcdecdefdefgefghfghighijhijkijkljklmklmnlmnomnopnopq"),
        "248d6a61d20638b8e5c026930c3e6039a33ce45964ff2167f6ecedd419db06c1",
    )?;
    // RFC 1321
    chk("md5('')", &md5(b""), "d41d8cd98f00b204e9800998ecf8427e")?;
    chk("md5(abc)", &md5(b"abc"), "900150983cd24fb0d6963f7d28e17f72")?;
    chk(
        "md5(alnum)",
        &md5(b"ABCDEFGHIJKLMNOPQRSTUVWXYZabcdefghijklmnopqrstuvwxyz0123456789"),
        "d174ab98d277d9f5a5611c2c9f419d9f",
    )?;
    chk(
        "md5(digits x8)",
        &md5(b"12345678901234567890123456789012345678901234567890123456789012345678901234567890"),
        "57edf4a22be3c955ac49da2e2107b67a",
    )?;
    // RFC 2202 (HMAC-SHA1)
    chk(
        "hmac-sha1 tc1",
        &hmac_sha1(&[0x0b; 20], b"Hi There"),
        "b617318655057264e28bc0b6fb378c8ef146be00",
    )?;
    chk(
        "hmac-sha1 tc2",
        &hmac_sha1(b"Jefe", b"what do ya want for nothing?"),
        "effcdf6ae5eb2fa2d27416d5f184df9c259a7c79",
    )?;
    chk(
        "hmac-sha1 tc6 (key > block)",
        &hmac_sha1(&[0xaa; 80], b"Test Using Larger Than Block-Size Key - Hash Key First"),
        "aa4ae5e15272d00e95705637ce8a3b55ed402112",
    )?;
    // RFC 4231 (HMAC-SHA256)
    chk(
        "hmac-sha256 tc1",
        &hmac_sha256(&[0x0b; 20], b"Hi There"),
        "b0344c61d8db38535ca8afceaf0bf12b881dc200c9833da726e9376c2e32cff7",
    )?;
    chk(
        "hmac-sha256 tc2",
        &hmac_sha256(b"Jefe", b"what do ya want for nothing?"),
        "5bdcc146bf60754e6a042426089575c75a003f089d2739839dec58b964ec3843",
    )?;
    chk(
        "hmac-sha256 tc6 (key > block)",
        &hmac_sha256(&[0xaa; 131], b"Test Using Larger Than Block-Size Key - Hash Key First"),
        "60e431591ee0b67f0d8a26aacbf5b77f8e0bc6213728c5140546040f0ee37f54",
    )?;
    // CRC-32 check value
    if crc32(b"123456789") != 0xCBF4_3926 {
        return Err("reference self-test failed: crc32 check value".into());
    }
    if crc32(b"") != 0 {
        return Err("reference self-test failed: crc32 empty".into());
    }
    // RFC 5769 2.2 sample IPv4 response: FINGERPRINT and MESSAGE-INTEGRITY
    let v = &stun_vectors::SAMPLE_IPV4_RESPONSE;
    // fingerprint covers bytes [0..72) (length field already covers it), xor 0x5354554e
    let fp = crc32(&v[..72]) ^ 0x5354_554e;
    if fp.to_be_bytes() != v[76..80] {
        return Err("reference self-test failed: RFC 5769 2.2 FINGERPRINT".into());
    }
    let mut pre = v[..48].to_vec();
    pre[2] = 0;
    pre[3] = 0x34; // length up to and including MESSAGE-INTEGRITY
    let mac = hmac_sha1(b"VOkJxbRl1RmTxUk/WvJxBt", &pre);
    if mac != v[52..72] {
        return Err("reference self-test failed: RFC 5769 2.2 MESSAGE-INTEGRITY".into());
    }
    // RFC 5769 2.4 long-term key = MD5(user:realm:pass) with the SASLprep'd password
    let user = "\u{30DE}\u{30C8}\u{30EA}\u{30C3}\u{30AF}\u{30B9}";
    let key = md5(format!("{}:{}:{}", user, "example.org", "TheMatrIX").as_bytes());
    let v = &stun_vectors::SAMPLE_REQUEST_LONG_TERM_AUTH;
    // MESSAGE-INTEGRITY is the last attribute: 24 bytes at the end
    let off = v.len() - 24;
    let mut pre = v[..off].to_vec();
    let l = (v.len() - 20) as u16;
    pre[2..4].copy_from_slice(&l.to_be_bytes());
    let mac = hmac_sha1(&key, &pre);
    if mac != v[off + 4..] {
        return Err("reference self-test failed: RFC 5769 2.4 long-term MESSAGE-INTEGRITY".into());
    }
    Ok(())
}
