#!/usr/bin/env python3
"""Fills the @@SUMMARY@@ / regenerates the summary table of DESIGN.md from evidence/*.json."""
import json, glob, os, re, sys
ROOT = os.path.dirname(os.path.dirname(os.path.abspath(__file__)))
sys.path.insert(0, os.path.join(ROOT, "vlib"))
import props as P
rows = ["| id | deciding monitor | builds | evaluations | distinct non-trivial | states | exhaustive parts | wall s |", "|---|---|---|---|---|---|---|---|"]
tech = json.load(open(os.path.join(ROOT, "MANIFEST.json")))
tech = {c["property_id"]: c["technique"].replace("runtime monitoring: ", "") for c in tech["checks"]}
for f in sorted(glob.glob(os.path.join(ROOT, "evidence", "C*.json"))):
    ev = json.load(open(f))
    c = ev["coverage"]
    ex = "; ".join(k for k, v in c.get("exhaustive_parts", {}).items() if v) or "-"
    rows.append("| %s | %s | %s | %s | %s | %s | %s | %.1f |" % (
        ev["property_id"], tech.get(ev["property_id"], ""), "+".join(c.get("profiles", [])), f"{c.get('evaluations',0):,}",
        f"{c.get('distinct_nontrivial',0):,}", f"{c.get('states',0):,}", ex, ev.get("wall_s", 0)))
table = "\n".join(rows)
p = os.path.join(ROOT, "DESIGN.md")
s = open(p).read()
if "@@SUMMARY@@" in s:
    s = s.replace("@@SUMMARY@@", "<!-- summary:begin -->\n" + table + "\n<!-- summary:end -->")
else:
    s = re.sub(r"<!-- summary:begin -->.*?<!-- summary:end -->", "<!-- summary:begin -->\n" + table.replace("\\", "\\\\") + "\n<!-- summary:end -->", s, flags=re.S)
open(p, "w").write(s)
print("summary table written (%d rows)" % (len(rows) - 2))
