#![no_main]
//! Coverage-guided supplement of C03: libFuzzer drives MessageDecoder (all option
//! combinations), get_input_text, the stream reassembler and a long-term / short-term client
//! with the bytes; the oracle is the same as in the harness: no panic, no sanitizer report,
//! size post-conditions.
use libfuzzer_sys::fuzz_target;
use std::time::{Duration, Instant};
use stun_agent::{CredentialMechanism, RttConfig, StunAttributes, StunClienteBuilder, StunPacketDecodedValue, StunPacketDecoder, TransportReliability};
use stun_rs::attributes::stun::{Fingerprint, MessageIntegrity, MessageIntegritySha256};
use stun_rs::{DecoderContextBuilder, HMACKey, MessageDecoderBuilder};

fuzz_target!(|data: &[u8]| {
    if data.is_empty() {
        return;
    }
    let opts = data[0];
    let bytes = &data[1..];
    let mut b = DecoderContextBuilder::default();
    if opts & 1 != 0 {
        b = b.with_key(HMACKey::new_short_term("fuzz-password").unwrap());
    }
    if opts & 2 != 0 {
        b = b.with_validation();
    }
    if opts & 4 != 0 {
        b = b.with_unknown_data();
    }
    if opts & 8 != 0 {
        b = b.not_ignore();
    }
    let dec = if opts & 16 != 0 { MessageDecoderBuilder::default().build() } else { MessageDecoderBuilder::default().with_context(b.build()).build() };
    if let Ok((_, size)) = dec.decode(bytes) {
        assert!(size <= bytes.len());
        assert_eq!(size, 20 + u16::from_be_bytes([bytes[2], bytes[3]]) as usize);
    }
    let _ = stun_rs::get_input_text::<MessageIntegrity>(bytes);
    let _ = stun_rs::get_input_text::<MessageIntegritySha256>(bytes);
    let _ = stun_rs::get_input_text::<Fingerprint>(bytes);
    // reassembler, two chunks
    if let Ok(d) = StunPacketDecoder::new(vec![0u8; 20 + (opts as usize) * 8]) {
        let cut = (opts as usize) % (bytes.len() + 1);
        if let Ok(StunPacketDecodedValue::MoreBytesNeeded((d2, _))) = d.decode(&bytes[..cut]) {
            let _ = d2.decode(&bytes[cut..]);
        }
    }
    // a client with an outstanding request; the bytes are re-addressed to it
    let mech = match opts >> 5 {
        0 | 1 => None,
        2 | 3 => Some(CredentialMechanism::ShortTerm(None)),
        _ => Some(CredentialMechanism::LongTerm),
    };
    let rel = if opts & 16 != 0 { TransportReliability::Reliable(Duration::from_secs(5)) } else { TransportReliability::Unreliable(RttConfig::default()) };
    let mut cb = StunClienteBuilder::new(rel);
    if let Some(m) = mech {
        cb = cb.with_mechanism("fuzz-user", "fuzz-password", m);
    }
    if opts & 8 != 0 {
        cb = cb.with_fingerprint();
    }
    if let Ok(mut client) = cb.build() {
        let now = Instant::now();
        if let Ok(id) = client.send_request(stun_rs::methods::BINDING, StunAttributes::default(), vec![0u8; 512], now) {
            let _ = client.events();
            let mut v = bytes.to_vec();
            if v.len() >= 20 {
                v[8..20].copy_from_slice(id.as_bytes());
            }
            let _ = client.on_buffer_recv(&v, now + Duration::from_millis(5));
            let _ = client.events();
            let _ = client.send_request(stun_rs::methods::BINDING, StunAttributes::default(), vec![0u8; 512], now + Duration::from_millis(6));
            client.on_timeout(now + Duration::from_secs(60));
            let _ = client.events();
        }
    }
});
