//! LAttr <-> stun_rs::StunAttribute, through the library's PUBLIC constructors and
//! accessors only.

use crate::refstun::wire::{self, KeySpec, LAttr, LMsg};
use bounded_integer::{BoundedU16, BoundedU8};
use enumflags2::BitFlags;
use stun_rs::attributes::discovery::ChangeRequestFlags;
use stun_rs::attributes::stun::{Fingerprint, MessageIntegrity, MessageIntegritySha256};
use stun_rs::attributes::turn::RequestedTrasport;
use stun_rs::{
    AddressFamily, Algorithm, AlgorithmId, HMACKey, MessageClass, MessageMethod, StunAttribute,
    StunMessage, StunMessageBuilder, TransactionId,
};

pub fn lib_class(c: u8) -> MessageClass {
    match c & 3 {
        0 => MessageClass::Request,
        1 => MessageClass::Indication,
        2 => MessageClass::SuccessResponse,
        _ => MessageClass::ErrorResponse,
    }
}

pub fn class_num(c: MessageClass) -> u8 {
    match c {
        MessageClass::Request => 0,
        MessageClass::Indication => 1,
        MessageClass::SuccessResponse => 2,
        MessageClass::ErrorResponse => 3,
    }
}

pub fn lib_key(k: &KeySpec) -> Result<HMACKey, String> {
    match k {
        KeySpec::ShortTerm { password } => HMACKey::new_short_term(password).map_err(|e| e.to_string()),
        KeySpec::LongTerm { user, realm, password, alg } => HMACKey::new_long_term(
            user,
            realm,
            password,
            Algorithm::from(AlgorithmId::from(*alg)),
        )
        .map_err(|e| e.to_string()),
    }
}

fn family(f: u8) -> Result<AddressFamily, String> {
    AddressFamily::try_from(f).map_err(|e| e.to_string())
}

fn family_num(f: AddressFamily) -> u8 {
    match f {
        AddressFamily::IPv4 => 1,
        AddressFamily::IPv6 => 2,
    }
}

fn algorithm(alg: u16, params: &[u8]) -> Algorithm {
    if params.is_empty() {
        Algorithm::from(AlgorithmId::from(alg))
    } else {
        Algorithm::new(AlgorithmId::from(alg), params)
    }
}

/// Build the library attribute through public constructors.
pub fn to_lib(a: &LAttr, key: Option<&HMACKey>) -> Result<StunAttribute, String> {
    use LAttr::*;
    let e = |x: stun_rs::StunError| x.to_string();
    Ok(match a {
        MappedAddress(s) => stun_rs::attributes::stun::MappedAddress::from(*s).into(),
        AlternateServer(s) => stun_rs::attributes::stun::AlternateServer::from(*s).into(),
        XorMappedAddress(s) => stun_rs::attributes::stun::XorMappedAddress::from(*s).into(),
        ErrorCode { code, reason } => {
            stun_rs::attributes::stun::ErrorCode::new(stun_rs::ErrorCode::new(*code, reason).map_err(e)?).into()
        }
        UserName(s) => stun_rs::attributes::stun::UserName::new(s).map_err(e)?.into(),
        Realm { source, .. } => stun_rs::attributes::stun::Realm::new(source).map_err(e)?.into(),
        Nonce { source, .. } => stun_rs::attributes::stun::Nonce::new(source).map_err(e)?.into(),
        Software(s) => stun_rs::attributes::stun::Software::new(s.as_str()).map_err(e)?.into(),
        PasswordAlgorithm { alg, params } => {
            stun_rs::attributes::stun::PasswordAlgorithm::new(algorithm(*alg, params)).into()
        }
        PasswordAlgorithms(list) => {
            let mut pa = stun_rs::attributes::stun::PasswordAlgorithms::default();
            for (alg, params) in list {
                pa.add(stun_rs::attributes::stun::PasswordAlgorithm::new(algorithm(*alg, params)));
            }
            pa.into()
        }
        UnknownAttributes(list) => stun_rs::attributes::stun::UnknownAttributes::from(list.as_slice()).into(),
        UserHash { user, realm } => stun_rs::attributes::stun::UserHash::new(user, realm).map_err(e)?.into(),
        IceControlled(x) => stun_rs::attributes::ice::IceControlled::new(*x).into(),
        IceControlling(x) => stun_rs::attributes::ice::IceControlling::new(*x).into(),
        Priority(x) => stun_rs::attributes::ice::Priority::new(*x).into(),
        UseCandidate => stun_rs::attributes::ice::UseCandidate::default().into(),
        ChannelNumber(n) => stun_rs::attributes::turn::ChannelNumber::new(*n).into(),
        LifeTime(x) => stun_rs::attributes::turn::LifeTime::new(*x).into(),
        XorPeerAddress(s) => stun_rs::attributes::turn::XorPeerAddress::from(*s).into(),
        XorRelayedAddress(s) => stun_rs::attributes::turn::XorRelayedAddress::from(*s).into(),
        Data(d) => stun_rs::attributes::turn::Data::new(d).into(),
        RequestedAddressFamily(f) => stun_rs::attributes::turn::RequestedAddressFamily::new(family(*f)?).into(),
        EvenPort(r) => stun_rs::attributes::turn::EvenPort::new(*r).into(),
        DontFragment => stun_rs::attributes::turn::DontFragment::default().into(),
        RequestedTransport(p) => match *p {
            17 => RequestedTrasport::new(stun_rs::protocols::UDP).into(),
            0 => RequestedTrasport::new(stun_rs::protocols::ProtocolNumber::default()).into(),
            other => return Err(format!("protocol {} has no public constructor", other)),
        },
        AdditionalAddressFamily(f) => {
            stun_rs::attributes::turn::AdditionalAddressFamily::new(family(*f)?).into()
        }
        ReservationToken(t) => stun_rs::attributes::turn::ReservationToken::from(*t).into(),
        AddressErrorCode { family: f, code, reason } => stun_rs::attributes::turn::AddressErrorCode::new(
            family(*f)?,
            stun_rs::ErrorCode::new(*code, reason).map_err(e)?,
        )
        .into(),
        Icmp { typ, code, data } => {
            let t: BoundedU8<0, 127> = BoundedU8::new(*typ).ok_or("icmp type out of range")?;
            let c: BoundedU16<0, 511> = BoundedU16::new(*code).ok_or("icmp code out of range")?;
            stun_rs::attributes::turn::Icmp::new(t, c, *data).into()
        }
        MobilityTicket(d) => stun_rs::attributes::mobility::MobilityTicket::new(d).into(),
        ChangeRequest { ip, port } => {
            let mut f: BitFlags<ChangeRequestFlags> = BitFlags::empty();
            if *ip {
                f |= ChangeRequestFlags::ChangeIp;
            }
            if *port {
                f |= ChangeRequestFlags::ChangePort;
            }
            stun_rs::attributes::discovery::ChangeRequest::new(if f.is_empty() { None } else { Some(f) }).into()
        }
        OtherAddress(s) => stun_rs::attributes::discovery::OtherAddress::from(*s).into(),
        Padding(s) => stun_rs::attributes::discovery::Padding::new(s.as_str()).map_err(e)?.into(),
        ResponseOrigin(s) => stun_rs::attributes::discovery::ResponseOrigin::from(*s).into(),
        ResponsePort(p) => stun_rs::attributes::discovery::ResponsePort::new(*p).into(),
        MessageIntegrity => stun_rs::attributes::stun::MessageIntegrity::new(key.ok_or("no key")?.clone()).into(),
        MessageIntegritySha256 => {
            stun_rs::attributes::stun::MessageIntegritySha256::new(key.ok_or("no key")?.clone()).into()
        }
        Fingerprint => stun_rs::attributes::stun::Fingerprint::default().into(),
        Unknown { .. } => return Err("unknown attributes cannot be built".into()),
    })
}

pub fn to_lib_msg(m: &LMsg) -> Result<StunMessage, String> {
    let key = match &m.key {
        Some(k) => Some(lib_key(k)?),
        None => None,
    };
    let method = MessageMethod::try_from(m.method).map_err(|e| e.to_string())?;
    let mut b = StunMessageBuilder::new(method, lib_class(m.class))
        .with_transaction_id(TransactionId::from(m.txid));
    for a in &m.attrs {
        b = b.with_attribute(to_lib(a, key.as_ref())?);
    }
    Ok(b.build())
}

/// What the public accessors of a decoded attribute say.  Integrity/fingerprint values
/// are not readable through accessors; they are compared by `tail_equals`.
#[derive(Clone, Debug, PartialEq, Eq)]
pub enum View {
    Attr(LAttr),
    /// USERHASH as raw bytes (the logical form holds user and realm)
    UserHashBytes(Vec<u8>),
    /// Unknown attribute; `data` is None when the decoder was not asked to keep it
    Unknown { typ: u16, data: Option<Vec<u8>> },
}

pub fn from_lib(a: &StunAttribute) -> View {
    use StunAttribute as S;
    let l = match a {
        S::Unknown(u) => {
            return View::Unknown {
                typ: u.attribute_type().as_u16(),
                data: u.attribute_data().map(|d| d.to_vec()),
            }
        }
        S::AlternateServer(x) => LAttr::AlternateServer(*x.socket_address()),
        S::ErrorCode(x) => LAttr::ErrorCode {
            code: x.error_code().error_code(),
            reason: x.error_code().reason().to_string(),
        },
        S::Fingerprint(_) => LAttr::Fingerprint,
        S::MappedAddress(x) => LAttr::MappedAddress(*x.socket_address()),
        S::MessageIntegrity(_) => LAttr::MessageIntegrity,
        S::MessageIntegritySha256(_) => LAttr::MessageIntegritySha256,
        S::Nonce(x) => LAttr::nonce(x.as_str()),
        S::PasswordAlgorithm(x) => LAttr::PasswordAlgorithm {
            alg: u16::from(x.algorithm()),
            params: x.parameters().unwrap_or(&[]).to_vec(),
        },
        S::PasswordAlgorithms(x) => LAttr::PasswordAlgorithms(
            x.iter()
                .map(|p| (u16::from(p.algorithm()), p.parameters().unwrap_or(&[]).to_vec()))
                .collect(),
        ),
        S::Realm(x) => LAttr::realm(x.as_str()),
        S::Software(x) => LAttr::Software(x.as_str().to_string()),
        S::UnknownAttributes(x) => LAttr::UnknownAttributes(x.attributes().to_vec()),
        S::UserHash(x) => return View::UserHashBytes(x.hash().to_vec()),
        S::UserName(x) => LAttr::UserName(x.as_str().to_string()),
        S::XorMappedAddress(x) => LAttr::XorMappedAddress(*x.socket_address()),
        S::IceControlled(x) => LAttr::IceControlled(x.as_u64()),
        S::IceControlling(x) => LAttr::IceControlling(x.as_u64()),
        S::Priority(x) => LAttr::Priority(x.as_u32()),
        S::UseCandidate(_) => LAttr::UseCandidate,
        S::ChannelNumber(x) => LAttr::ChannelNumber(x.number()),
        S::LifeTime(x) => LAttr::LifeTime(x.as_u32()),
        S::XorPeerAddress(x) => LAttr::XorPeerAddress(*x.socket_address()),
        S::XorRelayedAddress(x) => LAttr::XorRelayedAddress(*x.socket_address()),
        S::Data(x) => LAttr::Data(x.as_bytes().to_vec()),
        S::RequestedAddressFamily(x) => LAttr::RequestedAddressFamily(family_num(x.family())),
        S::EvenPort(x) => LAttr::EvenPort(x.reserve()),
        S::DontFragment(_) => LAttr::DontFragment,
        S::RequestedTrasport(x) => LAttr::RequestedTransport(x.protocol().as_u8()),
        S::AdditionalAddressFamily(x) => LAttr::AdditionalAddressFamily(family_num(x.family())),
        S::ReservationToken(x) => {
            let mut t = [0u8; 8];
            t.copy_from_slice(x.token());
            LAttr::ReservationToken(t)
        }
        S::AddressErrorCode(x) => LAttr::AddressErrorCode {
            family: family_num(x.family()),
            code: x.error_code().error_code(),
            reason: x.error_code().reason().to_string(),
        },
        S::Icmp(x) => {
            let mut d = [0u8; 4];
            d.copy_from_slice(x.error_data());
            LAttr::Icmp { typ: x.icmp_type().get(), code: x.icmp_code().get(), data: d }
        }
        S::MobilityTicket(x) => LAttr::MobilityTicket(x.value().to_vec()),
        S::ChangeRequest(x) => LAttr::ChangeRequest {
            ip: x.flags().contains(ChangeRequestFlags::ChangeIp),
            port: x.flags().contains(ChangeRequestFlags::ChangePort),
        },
        S::OtherAddress(x) => LAttr::OtherAddress(*x.socket_address()),
        S::Padding(x) => LAttr::Padding(x.as_str().to_string()),
        S::ResponseOrigin(x) => LAttr::ResponseOrigin(*x.socket_address()),
        S::ResponsePort(x) => LAttr::ResponsePort(x.as_u16()),
    };
    View::Attr(l)
}

/// The view a correct decoder must produce for a logical attribute.
pub fn expected_view(a: &LAttr, keep_unknown_data: bool) -> View {
    match a {
        LAttr::UserHash { user, realm } => View::UserHashBytes(wire::user_hash(user, realm).to_vec()),
        LAttr::Unknown { typ, value } => View::Unknown {
            typ: *typ,
            data: if keep_unknown_data { Some(value.clone()) } else { None },
        },
        LAttr::Realm { text, .. } => View::Attr(LAttr::realm(text)),
        LAttr::Nonce { text, .. } => View::Attr(LAttr::nonce(text)),
        other => View::Attr(other.clone()),
    }
}

/// Does the decoded integrity / fingerprint attribute carry exactly these value bytes?
pub fn tail_equals(a: &StunAttribute, value: &[u8]) -> bool {
    match a {
        StunAttribute::MessageIntegrity(x) => {
            value.len() == 20 && {
                let mut v = [0u8; 20];
                v.copy_from_slice(value);
                *x == MessageIntegrity::from(v)
            }
        }
        StunAttribute::MessageIntegritySha256(x) => {
            value.len() == 32 && {
                let mut v = [0u8; 32];
                v.copy_from_slice(value);
                *x == MessageIntegritySha256::from(v)
            }
        }
        StunAttribute::Fingerprint(x) => {
            value.len() == 4 && {
                let mut v = [0u8; 4];
                v.copy_from_slice(value);
                *x == Fingerprint::from(v)
            }
        }
        _ => false,
    }
}

