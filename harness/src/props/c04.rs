//! C04 Message integrity accepts exactly the untampered message under the right key.
//! Oracle: reference HMAC-SHA1 / HMAC-SHA256 and key derivation; exhaustive single-bit
//! faults over the protected bytes and the MAC.

use super::c01::witness;
use super::{decode, decoder, encode, report_panic};
use crate::bridge;
use crate::ctx::{guarded, Ctx, PanicInfo};
use crate::gen::{self, GenCfg};
use crate::json::{hex, hex_trunc, J};
use crate::refstun::wire::{self, KeySpec, LAttr, LMsg, WAttr, Zero, T_MESSAGE_INTEGRITY, T_MESSAGE_INTEGRITY_SHA256};
use crate::rng::{fnv64, Rng};
use stun_rs::attributes::stun::{MessageIntegrity, MessageIntegritySha256};
use stun_rs::{Algorithm, AlgorithmId, HMACKey, StunAttribute};

struct KeyCase {
    /// reference view (strings after OpaqueString enforcement)
    spec: KeySpec,
    lib: HMACKey,
    desc: String,
    /// a key differing in exactly one character / in the algorithm / in the mechanism
    wrong: Vec<(String, HMACKey)>,
}

fn one_char_off(rng: &mut Rng, s: &str) -> String {
    let chars: Vec<char> = s.chars().collect();
    let i = rng.usize_below(chars.len().max(1));
    let mut out = String::new();
    for (k, c) in chars.iter().enumerate() {
        if k == i {
            out.push(if *c == 'q' { 'p' } else { 'q' });
        } else {
            out.push(*c);
        }
    }
    if chars.is_empty() {
        out.push('q');
    }
    out
}

fn key_case(rng: &mut Rng) -> Option<KeyCase> {
    let fancy = rng.chance(1, 3);
    let mk = |rng: &mut Rng, min: usize, max: usize| -> (String, String) {
        if fancy {
            gen::opaque_string_case(rng, min, max)
        } else {
            let s = gen::stable_string(rng, min, max);
            (s.clone(), s)
        }
    };
    if rng.chance(2, 5) {
        // short-term keys are the password itself: cover the HMAC block-size boundary (keys longer
        // than 64 bytes are hashed first, keys of exactly 64 are not)
        let (raw, enf) = if rng.chance(1, 4) {
            let l = *rng.pick(&[63usize, 64, 64, 65, 66, 127, 128, 129, 200]);
            mk(rng, l, l)
        } else {
            mk(rng, 1, 48)
        };
        let lib = HMACKey::new_short_term(&raw).ok()?;
        let w1 = one_char_off(rng, &raw);
        let mut wrong = Vec::new();
        if let Ok(k) = HMACKey::new_short_term(&w1) {
            if w1 != raw {
                wrong.push((format!("password {:?}", w1), k));
            }
        }
        if let Ok(k) = HMACKey::new_long_term("u", "r", &raw, Algorithm::from(AlgorithmId::MD5)) {
            wrong.push(("long-term key from the same password".into(), k));
        }
        Some(KeyCase {
            spec: KeySpec::ShortTerm { password: enf },
            lib,
            desc: format!("short-term password={:?}", raw),
            wrong,
        })
    } else {
        let user = gen::stable_string(rng, 1, 40);
        let (realm_raw, realm_enf) = mk(rng, 1, 40);
        let (pw_raw, pw_enf) = mk(rng, 1, 40);
        let alg = 1 + rng.below(2) as u16;
        let a = |x: u16| Algorithm::from(AlgorithmId::from(x));
        let lib = HMACKey::new_long_term(&user, &realm_raw, &pw_raw, a(alg)).ok()?;
        let mut wrong = Vec::new();
        let (u2, r2, p2) = (one_char_off(rng, &user), one_char_off(rng, &realm_raw), one_char_off(rng, &pw_raw));
        if let Ok(k) = HMACKey::new_long_term(&u2, &realm_raw, &pw_raw, a(alg)) {
            wrong.push((format!("user {:?}", u2), k));
        }
        if let Ok(k) = HMACKey::new_long_term(&user, &r2, &pw_raw, a(alg)) {
            wrong.push((format!("realm {:?}", r2), k));
        }
        if let Ok(k) = HMACKey::new_long_term(&user, &realm_raw, &p2, a(alg)) {
            wrong.push((format!("password {:?}", p2), k));
        }
        if let Ok(k) = HMACKey::new_long_term(&user, &realm_raw, &pw_raw, a(3 - alg)) {
            wrong.push(("the other key-derivation algorithm".into(), k));
        }
        if let Ok(k) = HMACKey::new_short_term(&pw_raw) {
            wrong.push(("short-term key from the same password".into(), k));
        }
        Some(KeyCase {
            spec: KeySpec::LongTerm { user: user.clone(), realm: realm_enf, password: pw_enf, alg },
            lib,
            desc: format!("long-term user={:?} realm={:?} password={:?} alg={}", user, realm_raw, pw_raw, alg),
            wrong,
        })
    }
}

/// Is the message accepted as authenticated through its (first) integrity attribute of
/// type `typ` under `key`?  Either path suffices: validating decode that returns the
/// attribute, or direct validate() on get_input_text().
fn accepted(bytes: &[u8], key: &HMACKey, typ: u16) -> Result<(bool, bool), PanicInfo> {
    let via_decoder = match decode(&decoder(Some(3), Some(key)), bytes)? {
        Ok((m, _)) => m.attributes().iter().any(|a| a.attribute_type().as_u16() == typ),
        Err(_) => false,
    };
    let via_validate = guarded(|| {
        let Ok((m, _)) = decoder(Some(0), None).decode(bytes) else { return false };
        for a in m.attributes() {
            match a {
                StunAttribute::MessageIntegrity(x) if typ == T_MESSAGE_INTEGRITY => {
                    return match stun_rs::get_input_text::<MessageIntegrity>(bytes) {
                        Some(input) => x.validate(&input, key),
                        None => false,
                    };
                }
                StunAttribute::MessageIntegritySha256(x) if typ == T_MESSAGE_INTEGRITY_SHA256 => {
                    return match stun_rs::get_input_text::<MessageIntegritySha256>(bytes) {
                        Some(input) => x.validate(&input, key),
                        None => false,
                    };
                }
                _ => {}
            }
        }
        false
    })?;
    Ok((via_decoder, via_validate))
}

fn tname(typ: u16) -> &'static str {
    if typ == T_MESSAGE_INTEGRITY {
        "MI"
    } else {
        "SHA256"
    }
}

fn check_message(ctx: &mut Ctx, m: &LMsg, kc: &KeyCase, rng: &mut Rng, exhaustive_faults: bool) -> Option<Vec<u8>> {
    let w = |bytes: Option<&[u8]>| witness(m, bytes).set("key", J::s(kc.desc.clone()));
    // key bytes
    let ref_key = kc.spec.key_bytes();
    if kc.lib.as_bytes() != ref_key.as_slice() {
        ctx.violation(
            &format!("key-derivation:{}", if matches!(kc.spec, KeySpec::ShortTerm { .. }) { "short-term" } else { "long-term" }),
            format!("HMACKey::as_bytes() = {} ; reference key = {}", hex(kc.lib.as_bytes()), hex(&ref_key)),
            w(None),
        );
        return None;
    }
    ctx.count("keys.match-reference");
    // encode with the library
    let lib_msg = {
        let method = stun_rs::MessageMethod::try_from(m.method).ok()?;
        let mut b = stun_rs::StunMessageBuilder::new(method, bridge::lib_class(m.class))
            .with_transaction_id(stun_rs::TransactionId::from(m.txid));
        for a in &m.attrs {
            b = b.with_attribute(bridge::to_lib(a, Some(&kc.lib)).ok()?);
        }
        b.build()
    };
    let need = 20 + wire::encoded_attr_bytes(m);
    let bytes = match encode(&lib_msg, need, 0) {
        Err(p) => {
            report_panic(ctx, "encode", &p, w(None));
            return None;
        }
        Ok(Err(_)) => return None,
        Ok(Ok((b, n))) => b[..n].to_vec(),
    };
    let raw = wire::parse(&bytes).ok()?;
    // MAC values are the RFC's
    let mut integrity: Vec<(u16, usize, usize)> = Vec::new(); // (type, attr offset, mac len)
    for ra in &raw.attrs {
        if ra.typ == T_MESSAGE_INTEGRITY {
            if ra.value != wire::mac_sha1(&ref_key, &bytes, ra.offset) {
                ctx.violation("mac-not-rfc:MI", "MESSAGE-INTEGRITY value is not HMAC-SHA1 over the adjusted prefix".into(), w(Some(&bytes)));
            }
            integrity.push((ra.typ, ra.offset, 20));
        } else if ra.typ == T_MESSAGE_INTEGRITY_SHA256 {
            if ra.value != wire::mac_sha256(&ref_key, &bytes, ra.offset) {
                ctx.violation("mac-not-rfc:SHA256", "MESSAGE-INTEGRITY-SHA256 value is not HMAC-SHA256 over the adjusted prefix".into(), w(Some(&bytes)));
            }
            integrity.push((ra.typ, ra.offset, 32));
        }
    }
    // untampered: validates under K through both paths
    for (typ, _, _) in &integrity {
        match accepted(&bytes, &kc.lib, *typ) {
            Err(p) => report_panic(ctx, "validate", &p, w(Some(&bytes))),
            Ok((d, v)) => {
                if !d || !v {
                    ctx.violation(
                        &format!("untampered-rejected:{}:{}", tname(*typ), if !d { "decoder" } else { "validate" }),
                        format!("untampered message not accepted (decoder={}, validate={})", d, v),
                        w(Some(&bytes)),
                    );
                }
                ctx.count("untampered.accepted");
            }
        }
    }
    // wrong keys
    for (what, k) in &kc.wrong {
        if k.as_bytes() == kc.lib.as_bytes() {
            continue;
        }
        for (typ, _, _) in &integrity {
            match accepted(&bytes, k, *typ) {
                Err(p) => report_panic(ctx, "validate", &p, w(Some(&bytes))),
                Ok((d, v)) => {
                    if d || v {
                        ctx.violation(
                            &format!("wrong-key-accepted:{}", tname(*typ)),
                            format!("accepted under a different key ({}) decoder={} validate={}", what, d, v),
                            w(Some(&bytes)),
                        );
                    }
                    ctx.count("wrong-key.rejected");
                }
            }
        }
    }
    // faults
    for (typ, off, maclen) in &integrity {
        let mut positions: Vec<usize> = (0..2).chain(4..*off).chain(off + 4..off + 4 + maclen).collect();
        if !exhaustive_faults {
            rng.shuffle(&mut positions);
            positions.truncate(24);
        }
        for pos in positions {
            let bits: Vec<u8> = if exhaustive_faults { (0..8).collect() } else { vec![rng.below(8) as u8] };
            for bit in bits {
                let mut t = bytes.clone();
                t[pos] ^= 1 << bit;
                match accepted(&t, &kc.lib, *typ) {
                    Err(p) => report_panic(ctx, "validate-tampered", &p, w(Some(&t))),
                    Ok((d, v)) => {
                        if d || v {
                            let region = if pos >= off + 4 { "mac" } else if pos < 20 { "header" } else { "attributes" };
                            ctx.violation(
                                &format!("tampered-accepted:{}:{}:{}", tname(*typ), region, if d { "decoder" } else { "validate" }),
                                format!(
                                    "bit {} of byte {} flipped ({} region of {}): still accepted (decoder={}, validate={})",
                                    bit, pos, region, tname(*typ), d, v
                                ),
                                w(Some(&t)).set("fault", J::s(format!("byte {} bit {}", pos, bit))),
                            );
                        }
                        ctx.count("faults.rejected");
                    }
                }
            }
        }
        // compound faults ("any change"): the same mask applied to two bytes 4k apart (cancels in
        // word-wise XOR/sum accumulators), to two adjacent bytes, swapped bytes, and whole-byte
        // changes; within the MAC (exhaustively over the byte pairs for a few masks when
        // exhaustive) and across MAC + prefix
        {
            let mac_lo = off + 4;
            let mac_hi = off + 4 + maclen;
            let mut pairs: Vec<(usize, usize, u8)> = Vec::new();
            if exhaustive_faults {
                for a in mac_lo..mac_hi {
                    for b in (a + 1)..mac_hi {
                        if (b - a) % 4 == 0 || b - a == 1 {
                            pairs.push((a, b, 1u8 << ((a + b) % 8)));
                        }
                    }
                }
            }
            for _ in 0..12 {
                let a = mac_lo + rng.usize_below(*maclen);
                let b = mac_lo + rng.usize_below(*maclen);
                pairs.push((a.min(b), a.max(b), 1 + rng.below(255) as u8));
                let c = if *off > 24 { 20 + rng.usize_below(off - 20) } else { rng.usize_below(2) };
                pairs.push((c, a, 1 + rng.below(255) as u8));
            }
            for (a, b, mask) in pairs {
                if a == b {
                    continue;
                }
                let mut t = bytes.clone();
                t[a] ^= mask;
                t[b] ^= mask;
                match accepted(&t, &kc.lib, *typ) {
                    Err(p) => report_panic(ctx, "validate-tampered", &p, w(Some(&t))),
                    Ok((d, v)) => {
                        if d || v {
                            ctx.violation(
                                &format!("tampered-accepted:{}:compound:{}", tname(*typ), if d { "decoder" } else { "validate" }),
                                format!("bytes {} and {} both xor {:#04x} (distance {}): still accepted (decoder={}, validate={})", a, b, mask, b - a, d, v),
                                w(Some(&t)).set("fault", J::s(format!("bytes {} and {} xor {:#04x}", a, b, mask))),
                            );
                        }
                        ctx.count("faults.compound-rejected");
                    }
                }
            }
            // two MAC bytes swapped (when they differ)
            for _ in 0..4 {
                let a = mac_lo + rng.usize_below(*maclen);
                let b = mac_lo + rng.usize_below(*maclen);
                if bytes[a] == bytes[b] {
                    continue;
                }
                let mut t = bytes.clone();
                t.swap(a, b);
                match accepted(&t, &kc.lib, *typ) {
                    Err(p) => report_panic(ctx, "validate-tampered", &p, w(Some(&t))),
                    Ok((d, v)) => {
                        if d || v {
                            ctx.violation(
                                &format!("tampered-accepted:{}:swap:{}", tname(*typ), if d { "decoder" } else { "validate" }),
                                format!("MAC bytes {} and {} swapped: still accepted (decoder={}, validate={})", a, b, d, v),
                                w(Some(&t)),
                            );
                        }
                        ctx.count("faults.compound-rejected");
                    }
                }
            }
        }
        // outside the protected set: header length bytes and the attribute's own type/length: no panic only
        for pos in [2usize, 3, *off, off + 1, off + 2, off + 3] {
            let mut t = bytes.clone();
            t[pos] ^= 1 << rng.below(8);
            if let Err(p) = accepted(&t, &kc.lib, *typ) {
                report_panic(ctx, "validate-tampered", &p, w(Some(&t)));
            }
            ctx.count("faults.unprotected-no-panic");
        }
    }
    // legitimately appended attributes do not invalidate
    if let Some((typ, _, _)) = integrity.first() {
        let has_sha = raw.count(T_MESSAGE_INTEGRITY_SHA256) > 0;
        let has_fp = raw.count(wire::T_FINGERPRINT) > 0;
        let mut base: Vec<WAttr> = raw.attrs.iter().map(|a| WAttr::Raw(a.typ, a.value.clone())).collect();
        let mut appended = Vec::new();
        if *typ == T_MESSAGE_INTEGRITY && !has_sha && !has_fp {
            base.push(WAttr::Mi256(ref_key.clone(), None));
            appended.push("SHA256");
        }
        if !has_fp {
            base.push(WAttr::Fp(None));
            appended.push("FP");
        }
        if !appended.is_empty() {
            let ext = wire::build_raw(m.method, m.class, &m.txid, &base, &mut Zero);
            match accepted(&ext, &kc.lib, *typ) {
                Err(p) => report_panic(ctx, "validate-appended", &p, w(Some(&ext))),
                Ok((d, v)) => {
                    if !d || !v {
                        ctx.violation(
                            &format!("appended-invalidates:{}", tname(*typ)),
                            format!("after appending {:?} the {} no longer validates (decoder={}, validate={})", appended, tname(*typ), d, v),
                            w(Some(&ext)),
                        );
                    }
                    ctx.count("appended.still-valid");
                }
            }
        }
    }
    Some(bytes)
}

pub fn run(ctx: &mut Ctx) {
    let cfg = GenCfg { max_blob: 60 };
    // tails: MI; SHA256; MI+SHA256; each with/without FP
    let tails: [u8; 6] = [1, 2, 3, 5, 6, 7];

    let n = ctx.n(6_000, 500_000);
    ctx.cases("exhaustive-faults", n, |ctx, case, rng| {
        let Some(kc) = key_case(rng) else {
            ctx.count("key-rejected-by-library");
            return;
        };
        let nattrs = rng.below(4) as usize;
        let mut attrs: Vec<LAttr> = (0..nattrs)
            .map(|_| {
                let k = rng.usize_below(gen::ORDINARY_KINDS);
                gen::attr_of_kind(rng, k, &cfg)
            })
            .collect();
        let tb = tails[(case % 6) as usize];
        ctx.count(&format!("tail.{}", tb));
        attrs.extend(gen::tail(tb));
        let m = LMsg { method: gen::method(rng), class: rng.below(4) as u8, txid: gen::txid(rng), attrs, key: Some(kc.spec.clone()) };
        if wire::encoded_attr_bytes(&m) > 260 {
            ctx.count("exhaustive-faults.skipped-large");
            return;
        }
        ctx.count(match &kc.spec {
            KeySpec::ShortTerm { .. } => "keys.short-term",
            KeySpec::LongTerm { alg: 1, .. } => "keys.long-term-md5",
            _ => "keys.long-term-sha256",
        });
        let b = check_message(ctx, &m, &kc, rng, true);
        if ctx.want_sample() && case % 131 == 2 {
            ctx.sample(witness(&m, b.as_deref()).set("key", J::s(kc.desc.clone())).set("faults", J::s("every bit of bytes [0,2) + [4,off) + MAC")));
        }
        ctx.eval(b.map(|b| fnv64(&b)));
    });

    // larger messages, sampled faults
    let big = GenCfg { max_blob: 1500 };
    let n = ctx.n(6_000, 500_000);
    ctx.cases("sampled-faults", n, |ctx, case, rng| {
        let Some(kc) = key_case(rng) else { return };
        let mut m = gen::message(rng, 10, &big);
        m.attrs.retain(|a| !a.is_tail());
        m.attrs.extend(gen::tail(tails[(case % 6) as usize]));
        m.key = Some(kc.spec.clone());
        let b = check_message(ctx, &m, &kc, rng, false);
        ctx.eval(b.map(|b| fnv64(&b)));
    });


    // any order of the three trailing attributes, every decoder option set that validates: an integrity
    // attribute that is NOT the RFC MAC under the decoder's key at its own position (made under another
    // key, or one MAC bit flipped) must never be part of a successfully validated decode, wherever it
    // stands and whatever else the options say (found missing by seeded change C04-A6: not_ignore())
    let n = ctx.n(12_000, 1_000_000);
    ctx.cases("any-order-acceptance", n, |ctx, _case, rng| {
        let Some(kc) = key_case(rng) else { return };
        let ref_key = kc.spec.key_bytes();
        let other_key: Vec<u8> = if kc.wrong.is_empty() { vec![0x55; 16] } else { kc.wrong[rng.usize_below(kc.wrong.len())].1.as_bytes().to_vec() };
        let mut attrs: Vec<WAttr> = Vec::new();
        for _ in 0..rng.below(3) {
            attrs.push(WAttr::Raw(0x8022, gen::stable_string(rng, 1, 12).into_bytes()));
        }
        // a permutation of a subset of {MI, SHA256, FP} holding at least one integrity attribute
        let mut kinds: Vec<u8> = vec![0, 1, 2];
        for i in (1..kinds.len()).rev() {
            kinds.swap(i, rng.usize_below(i + 1));
        }
        let keep = 1 + rng.usize_below(3);
        kinds.truncate(keep);
        if !kinds.iter().any(|k| *k < 2) {
            kinds.push(rng.below(2) as u8);
        }
        // state per integrity type: 0 good, 1 one MAC bit flipped, 2 made under another key
        let mut state = [0u8; 2];
        let mut order = String::new();
        for k in &kinds {
            match *k {
                2 => {
                    attrs.push(WAttr::Fp(None));
                    order.push('F');
                }
                t => {
                    let st = if rng.chance(1, 3) { 0 } else { 1 + rng.below(2) as u8 };
                    state[t as usize] = st;
                    let (key, flip) = match st {
                        0 => (ref_key.clone(), None),
                        1 => (ref_key.clone(), Some(1u8 << rng.below(8))),
                        _ => (other_key.clone(), None),
                    };
                    if other_key == ref_key && st == 2 {
                        state[t as usize] = 0;
                    }
                    attrs.push(if t == 0 { WAttr::Mi(key, flip) } else { WAttr::Mi256(key, flip) });
                    order.push(if t == 0 { 'M' } else { 'S' });
                }
            }
            if rng.chance(1, 6) {
                attrs.push(WAttr::Raw(0x8022, b"x".to_vec()));
                order.push('o');
            }
        }
        let bytes = wire::build_raw(gen::method(rng), rng.below(4) as u8, &gen::txid(rng), &attrs, &mut Zero);
        ctx.count(&format!("any-order.order.{}", order));
        for opts in [3u8, 7, 11, 15] {
            match decode(&decoder(Some(opts), Some(&kc.lib)), &bytes) {
                Err(p) => report_panic(ctx, "decode-any-order", &p, J::obj().set("bytes", J::s(hex_trunc(&bytes, 400)))),
                Ok(Err(_)) => ctx.count("any-order.decode-refused"),
                Ok(Ok((m, _))) => {
                    ctx.count("any-order.decode-ok");
                    for a in m.attributes() {
                        let t = match a.attribute_type().as_u16() {
                            T_MESSAGE_INTEGRITY => 0usize,
                            T_MESSAGE_INTEGRITY_SHA256 => 1,
                            _ => continue,
                        };
                        if state[t] != 0 {
                            ctx.violation(
                                &format!(
                                    "bad-integrity-in-validated-decode:{}:{}:{}",
                                    tname(if t == 0 { T_MESSAGE_INTEGRITY } else { T_MESSAGE_INTEGRITY_SHA256 }),
                                    if state[t] == 1 { "mac-bit-flipped" } else { "other-key" },
                                    super::opts_name(Some(opts))
                                ),
                                format!("tail order {}: validating decode succeeded and returned an integrity attribute that is not the MAC under the decoder's key", order),
                                J::obj().set("bytes", J::s(hex_trunc(&bytes, 400))).set("key", J::s(kc.desc.clone())).set("order", J::s(order.clone())),
                            );
                        } else {
                            ctx.count("any-order.good-integrity-returned");
                        }
                    }
                }
            }
        }
        ctx.eval(Some(fnv64(&bytes)));
    });

    // RFC vectors: published MACs validate under the published credentials only
    ctx.cases("vectors", 1, |ctx, _c, rng| {
        let st = HMACKey::new_short_term("VOkJxbRl1RmTxUk/WvJxBt").unwrap();
        let user = "\u{30DE}\u{30C8}\u{30EA}\u{30C3}\u{30AF}\u{30B9}";
        let lt = HMACKey::new_long_term(user, "example.org", "TheMatrIX", Algorithm::from(AlgorithmId::MD5)).unwrap();
        let vs: [(&[u8], &HMACKey, u16); 5] = [
            (&stun_vectors::SAMPLE_REQUEST, &st, T_MESSAGE_INTEGRITY),
            (&stun_vectors::SAMPLE_IPV4_RESPONSE, &st, T_MESSAGE_INTEGRITY),
            (&stun_vectors::SAMPLE_IPV6_RESPONSE, &st, T_MESSAGE_INTEGRITY),
            (&stun_vectors::SAMPLE_REQUEST_LONG_TERM_AUTH, &lt, T_MESSAGE_INTEGRITY),
            (&stun_vectors::SAMPLE_REQUEST_LONG_TERM_AUTH_SHA256, &lt, T_MESSAGE_INTEGRITY_SHA256),
        ];
        for (v, k, typ) in vs {
            match accepted(v, k, typ) {
                Ok((true, true)) => ctx.count("vectors.accepted"),
                Ok((d, val)) => ctx.violation("rfc-vector-rejected", format!("decoder={} validate={}", d, val), J::obj().set("bytes", J::s(hex_trunc(v, 200)))),
                Err(p) => report_panic(ctx, "validate", &p, J::obj()),
            }
            let other = if std::ptr::eq(k, &st) { &lt } else { &st };
            if let Ok((d, val)) = accepted(v, other, typ) {
                if d || val {
                    ctx.violation("rfc-vector-accepted-under-other-key", String::new(), J::obj().set("bytes", J::s(hex_trunc(v, 200))));
                }
            }
            let mut t = v.to_vec();
            let i = 20 + rng.usize_below(8);
            t[i] ^= 0x10;
            if let Ok((d, val)) = accepted(&t, k, typ) {
                if d || val {
                    ctx.violation("rfc-vector-tampered-accepted", String::new(), J::obj().set("bytes", J::s(hex_trunc(&t, 200))));
                }
            }
            ctx.eval(Some(fnv64(v)));
        }
    });
}
